"""C08 - Region containment is geometrically exact and equivariant under move/rotate/copy."""
import math
import numpy as np
import z3

from vtools.runner import Harness

ID = 'C08'
LEVEL = 'other'
EXPLANATION = ('the real ROI classes are executed on symbolic points and symbolic region parameters (angles from a '
               'listed set incl. multiples of pi/2 and near-multiples); points are parametrised in the region\'s own '
               'frame and mapped forward (independent of the code\'s inverse rotation); z3 proves strict-inside => '
               'contained and strict-outside => not contained outside a boundary band, also after move_to / rotate_to / '
               'copy / save-restore and for every array layout (broadcast views, chunks)')

PI = math.pi
EPS_IN, EPS_OUT = 5e-10, 3e-9         # inside / outside the 1e-9 axis-alignment tolerance of the code
ANGLES_QUICK = [0.0, PI / 2, PI, -PI / 2, 2 * PI, EPS_IN, PI / 2 - EPS_IN, PI + EPS_OUT, PI / 2 + EPS_OUT,
                -PI / 2 + EPS_IN, -3 * PI / 2 + EPS_IN, 0.3, 2.0, -0.7, 2.6, 4.0, 5.5]
ANGLES_THOROUGH = ANGLES_QUICK + [3 * PI / 2, -PI, PI - EPS_IN, -EPS_IN, 3 * PI / 2 + EPS_IN, -EPS_OUT, 1.0, 1.3, 3.0,
                                  -2.2, 6.0, 7.5, 0.01, PI / 4, 3 * PI / 4, -PI / 2 - EPS_IN, -PI + EPS_IN, 5 * PI / 2 + EPS_IN,
                                  -5 * PI / 2 + EPS_IN, -PI / 2 + 2.0 ** -52]
ROTATE_TO = [0.0, PI / 2, 2.0, -PI / 2 + EPS_IN]      # targets of rotate_to (independent of the starting angle)


class IdCtx:
    """stand-in for the (de)serialiser context: identity on values (the ROI's own field wiring is what is exercised)"""

    def do(self, x):
        return x

    def id(self, x):
        return x

    def object(self, x):
        return x


def save_restore(roi):
    rec = roi.__gluestate__(IdCtx())
    return type(roi).__setgluestate__(rec, IdCtx())


def rot(theta, u, v):
    from vtools import symnp as sn
    c, s = sn.trig(theta)
    return c * u - s * v, s * u + c * v


def layouts(env, xs, ys, k):
    """the same points presented in different array layouts -> list of (x, y, unpack) """
    n = len(xs)
    X = np.array(xs, dtype=object) if env.symbolic else np.array(xs, dtype=float)
    Y = np.array(ys, dtype=object) if env.symbolic else np.array(ys, dtype=float)
    if env.symbolic:
        from vtools import symnp as sn
        X, Y = sn.wrap(X), sn.wrap(Y)
    if k == 0:
        return X, Y, lambda r: [r[i] for i in range(n)]
    if k == 1:
        return X.reshape((1, n)), Y.reshape((1, n)), lambda r: [r[0, i] for i in range(n)]
    if k == 2:
        return X.reshape((n, 1)), Y.reshape((n, 1)), lambda r: [r[i, 0] for i in range(n)]
    if k == 3:      # 0-stride broadcast views: x varies along axis 0, y along axis 1 -> grid of points
        return (np.broadcast_to(X.reshape((n, 1)), (n, n)), np.broadcast_to(Y.reshape((1, n)), (n, n)),
                lambda r: [r[i, i] for i in range(n)])
    raise ValueError(k)


def check_region(env, contains, pts, tag):
    """pts: list of (x, y, strictly_inside, strictly_outside)"""
    for lay in range(4):
        x, y, unpack = layouts(env, [p[0] for p in pts], [p[1] for p in pts], lay)
        r = contains(x, y)
        env.true(tuple(np.shape(r)) == tuple(np.shape(x)), '%s: result has the input shape (layout %d)' % (tag, lay))
        got = unpack(r)
        conds = []
        for i, (px, py, inside, outside) in enumerate(pts):
            conds.append((~inside) | got[i])
            conds.append((~outside) | (~got[i]))
        env.true_all(conds, '%s: strictly inside => contained, strictly outside => not contained (layout %d)' % (tag, lay))


def frame_points(env, n, cx, cy, theta, inside_fn, outside_fn, lim=50):
    pts = []
    for i in range(n):
        u = env.real('u%d' % i, lo=-lim, hi=lim)
        v = env.real('v%d' % i, lo=-lim, hi=lim)
        du, dv = rot(theta, u, v)
        pts.append((cx + du, cy + dv, inside_fn(u, v), outside_fn(u, v)))
    return pts


def _abs(x):
    return abs(x)


def body_rect(env, angles=ANGLES_QUICK, n=2):
    from glue.core.roi import RectangularROI
    theta = angles[env.choice('theta', len(angles))]
    xmin = env.real('xmin', lo=-20, hi=20)
    w = env.real('w', lo=0.125, hi=20)
    ymin = env.real('ymin', lo=-20, hi=20)
    h = env.real('h', lo=0.125, hi=20)
    roi = RectangularROI(xmin, xmin + w, ymin, ymin + h, theta=theta)
    band = (w + h) * 1e-4
    cx, cy = xmin + w / 2, ymin + h / 2

    def inside(u, v):
        return (_abs(u) <= w / 2 - band) & (_abs(v) <= h / 2 - band)

    def outside(u, v):
        return (_abs(u) >= w / 2 + band) | (_abs(v) >= h / 2 + band)

    stage = env.choice('stage', 5)
    if stage == 0:
        pass
    elif stage == 1:              # move_to: centre placed there, contained set translated
        nx, ny = env.real('nx', lo=-20, hi=20), env.real('ny', lo=-20, hi=20)
        roi.move_to(nx, ny)
        c = roi.center()
        env.close(c[0], nx, 1e-9, 'rect: reported centre x after move_to')
        env.close(c[1], ny, 1e-9, 'rect: reported centre y after move_to')
        env.close(roi.width(), w, 1e-9, 'rect: width unchanged by move_to')
        env.close(roi.height(), h, 1e-9, 'rect: height unchanged by move_to')
        cx, cy = nx, ny
    elif stage == 2:              # rotate_to another listed angle: rotates about the centre
        theta = ROTATE_TO[env.choice('theta2', len(ROTATE_TO))]
        roi.rotate_to(theta)
        c = roi.center()
        env.close(c[0], cx, 1e-9, 'rect: centre x unchanged by rotate_to')
        env.close(c[1], cy, 1e-9, 'rect: centre y unchanged by rotate_to')
    elif stage == 3:
        roi2 = roi.copy()
        roi.move_to(cx + 100, cy)          # the copy must not follow the original
        roi = roi2
    elif stage == 4:
        roi = save_restore(roi)
    pts = frame_points(env, n, cx, cy, theta, inside, outside)
    check_region(env, roi.contains, pts, 'rect theta=%r stage=%d' % (theta, stage))
    # polygon approximation = exactly the forward-rotated corners
    vx, vy = roi.to_polygon()
    exp = [(-1, -1), (1, -1), (1, 1), (-1, 1), (-1, -1)]
    env.true(len(vx) == 5 and len(vy) == 5, 'rect: to_polygon has 5 vertices')
    ex_, ey_ = [], []
    for k, (sx, sy) in enumerate(exp):
        du, dv = rot(theta, sx * w / 2, sy * h / 2)
        ex_.append(cx + du)
        ey_.append(cy + dv)
    # same closed polygon: the 4 corners in the same cyclic order, whatever the starting corner
    tol = (w + h) * 1e-5 + 1e-5
    env.true(_abs(vx[4] - vx[0]) + _abs(vy[4] - vy[0]) <= tol, 'rect: polygon is closed')
    alts = None
    for sh in range(4):
        ok = None
        for k in range(4):
            t = (_abs(vx[k] - ex_[(k + sh) % 4]) <= tol) & (_abs(vy[k] - ey_[(k + sh) % 4]) <= tol)
            ok = t if ok is None else (ok & t)
        alts = ok if alts is None else (alts | ok)
    env.true(alts, 'rect: polygon vertices are the forward-rotated corners (up to the starting corner)')


RADII = [(1.0, 1.0), (2.0, 0.5), (0.25, 3.0), (1.5, 1.25)]
RADII_MORE = [(8.0, 0.125), (0.125, 8.0), (3.0, 2.9375), (0.5, 0.5), (5.0, 1.0), (1.0, 7.0)]      # thin, nearly circular, large


def body_ellipse(env, angles=ANGLES_QUICK, n=1, symbolic_radii=False, radii=None):
    from glue.core.roi import EllipticalROI
    theta = angles[env.choice('theta', len(angles))]
    xc = env.real('xc', lo=-20, hi=20)
    yc = env.real('yc', lo=-20, hi=20)
    if symbolic_radii:
        rx, ry = env.real('rx', lo=0.25, hi=8), env.real('ry', lo=0.25, hi=8)
    else:
        rl = RADII if radii is None else radii
        rx, ry = rl[env.choice('radii', len(rl))]
    roi = EllipticalROI(xc, yc, rx, ry, theta=theta)
    stage = env.choice('stage', 5)
    cx, cy = xc, yc
    if stage == 1:
        nx, ny = env.real('nx', lo=-20, hi=20), env.real('ny', lo=-20, hi=20)
        roi.move_to(nx, ny)
        c = roi.center()
        env.same(c[0], nx, 'ellipse: reported centre x after move_to')
        env.same(c[1], ny, 'ellipse: reported centre y after move_to')
        cx, cy = nx, ny
    elif stage == 2:
        theta = ROTATE_TO[env.choice('theta2', len(ROTATE_TO))]
        roi.rotate_to(theta)
    elif stage == 3:
        roi2 = roi.copy()
        roi.move_to(cx + 100, cy)
        roi = roi2
    elif stage == 4:
        roi = save_restore(roi)

    # frame coordinates scaled by the semi-axes: u = rx*a, v = ry*b, inside iff a^2 + b^2 < 1
    pts = []
    for i in range(n):
        a = env.real('a%d' % i, lo=-6, hi=6)
        b = env.real('b%d' % i, lo=-6, hi=6)
        du, dv = rot(theta, a * rx, b * ry)
        q = a * a + b * b
        pts.append((cx + du, cy + dv, q <= 1 - 1e-5, q >= 1 + 1e-5))
    check_region(env, roi.contains, pts, 'ellipse theta=%r stage=%d' % (theta, stage))
    if stage == 0:
        # polygon approximation: vertices lie on the ellipse
        vx, vy = roi.to_polygon()
        env.true(len(vx) == 100 and len(vy) == 100, 'ellipse: 100 polygon vertices')
        for k in (0, 13, 50, 77):
            dx, dy = vx[k] - cx, vy[k] - cy
            pu, pv = rot(-theta, dx, dy)
            val = (pu / rx) * (pu / rx) + (pv / ry) * (pv / ry)
            env.close(val, 1.0, 1e-6, 'ellipse: polygon vertex %d on the boundary' % k)


def body_circle(env, n=2):
    from glue.core.roi import CircularROI
    xc = env.real('xc', lo=-20, hi=20)
    yc = env.real('yc', lo=-20, hi=20)
    r = env.real('r', lo=0.125, hi=10)
    roi = CircularROI(xc, yc, r)
    stage = env.choice('stage', 4)
    cx, cy = xc, yc
    if stage == 1:
        nx, ny = env.real('nx', lo=-20, hi=20), env.real('ny', lo=-20, hi=20)
        roi.move_to(nx, ny)
        c = roi.center()
        env.same(c[0], nx, 'circle: centre x after move_to')
        env.same(c[1], ny, 'circle: centre y after move_to')
        cx, cy = nx, ny
    elif stage == 2:
        roi2 = roi.copy()
        roi.move_to(cx + 100, cy)
        roi = roi2
    elif stage == 3:
        roi = save_restore(roi)
    pts = []
    for i in range(n):
        u = env.real('u%d' % i, lo=-30, hi=30)
        v = env.real('v%d' % i, lo=-30, hi=30)
        q = u * u + v * v
        pts.append((cx + u, cy + v, q <= r * r * (1 - 1e-6), q >= r * r * (1 + 1e-6)))
    check_region(env, roi.contains, pts, 'circle stage=%d' % stage)


ANNULI = [(0.0, 0.0, 1.0, 2.0), (1.5, -2.0, 0.5, 0.75), (-3.0, 4.0, 2.0, 5.0)]


def body_annulus(env, n=2):
    """annulus parameters must be python floats for the class to consider itself defined: listed values,
    points symbolic"""
    from glue.core.roi import CircularAnnulusROI
    xc, yc, r1, r2 = ANNULI[env.choice('annulus', len(ANNULI))]
    roi = CircularAnnulusROI(xc, yc, r1, r2)
    stage = env.choice('stage', 3)
    if stage == 1:
        roi = save_restore(roi)
    elif stage == 2:
        roi.move_to(xc + 1.5, yc - 0.5)
        xc, yc = xc + 1.5, yc - 0.5
        env.true(tuple(roi.center()) == (xc, yc), 'annulus: centre after move_to')
    pts = []
    for i in range(n):
        u = env.real('u%d' % i, lo=-30, hi=30)
        v = env.real('v%d' % i, lo=-30, hi=30)
        q = u * u + v * v
        inside = (q >= r1 * r1 * (1 + 1e-6)) & (q <= r2 * r2 * (1 - 1e-6))
        outside = (q <= r1 * r1 * (1 - 1e-6)) | (q >= r2 * r2 * (1 + 1e-6))
        pts.append((xc + u, yc + v, inside, outside))
    check_region(env, roi.contains, pts, 'annulus stage=%d' % stage)


def body_range(env, n=2):
    from glue.core.roi import RangeROI, XRangeROI, YRangeROI
    lo = env.real('lo', lo=-20, hi=20)
    wd = env.real('wd', lo=0.01, hi=20)
    kind = env.choice('kind', 4)
    roi = [RangeROI('x', lo, lo + wd), RangeROI('y', lo, lo + wd), XRangeROI(lo, lo + wd), YRangeROI(lo, lo + wd)][kind]
    ori = 'xyxy'[kind]
    stage = env.choice('stage', 4)
    if stage == 1:
        nc = env.real('nc', lo=-20, hi=20)
        roi.move_to(nc)
        env.close(roi.center(), nc, 1e-9, 'range: centre after move_to')
        lo = nc - wd / 2
    elif stage == 2:
        roi2 = roi.copy()
        roi.move_to(lo + 100)
        roi = roi2
    elif stage == 3:
        roi = save_restore(roi)
        env.true(roi.ori == ori, 'range: orientation restored')
    band = wd * 1e-6
    pts = []
    for i in range(n):
        a = env.real('a%d' % i, lo=-50, hi=50)
        b = env.real('b%d' % i, lo=-50, hi=50)
        t = a if ori == 'x' else b
        pts.append((a, b, (t >= lo + band) & (t <= lo + wd - band), (t <= lo - band) | (t >= lo + wd + band)))
    check_region(env, roi.contains, pts, 'range kind=%d stage=%d' % (kind, stage))


# ---------------------------------------------------------------- polygons (S-path stub in symbolic mode)

POLYS = {
    'triangle': ([0.0, 4.0, 1.0], [0.0, 1.0, 3.0]),
    'square': ([0.0, 2.0, 2.0, 0.0], [0.0, 0.0, 2.0, 2.0]),
    'closed-quad': ([0.0, 3.0, 4.0, 1.0, 0.0], [0.0, 0.0, 2.0, 3.0, 0.0]),
    'L': ([0.0, 3.0, 3.0, 1.0, 1.0, 0.0], [0.0, 0.0, 1.0, 1.0, 3.0, 3.0]),      # concave
    'collinear-quad': ([0.0, 2.0, 4.0, 4.0, 0.0], [0.0, 0.0, 0.0, 2.0, 3.0]),    # extra vertex on an edge
}
# convex pieces whose union is the polygon (oracle by half-planes, independent of the crossing-number stub)
PIECES = {
    'triangle': [[(0.0, 0.0), (4.0, 1.0), (1.0, 3.0)]],
    'square': [[(0.0, 0.0), (2.0, 0.0), (2.0, 2.0), (0.0, 2.0)]],
    'closed-quad': [[(0.0, 0.0), (3.0, 0.0), (4.0, 2.0), (1.0, 3.0)]],
    'L': [[(0.0, 0.0), (3.0, 0.0), (3.0, 1.0), (0.0, 1.0)], [(0.0, 1.0), (1.0, 1.0), (1.0, 3.0), (0.0, 3.0)]],
    'collinear-quad': [[(0.0, 0.0), (4.0, 0.0), (4.0, 2.0), (0.0, 3.0)]],
}


def shoelace_centroid(vx, vy):
    if vx[0] == vx[-1] and vy[0] == vy[-1]:
        vx, vy = vx[:-1], vy[:-1]
    n = len(vx)
    a = cx = cy = 0.0
    for i in range(n):
        j = (i + 1) % n
        cr = vx[i] * vy[j] - vx[j] * vy[i]
        a += cr
        cx += (vx[i] + vx[j]) * cr
        cy += (vy[i] + vy[j]) * cr
    a *= 0.5
    return cx / (6 * a), cy / (6 * a)


def poly_classify(name, px, py, transform, band=1e-4):
    """(strictly inside, strictly outside) of the transformed polygon for a point, by half-planes of convex pieces.
    transform maps a concrete vertex to its (possibly symbolic) position."""
    inside_any = None
    outside_all = None
    for piece in PIECES[name]:
        verts = [transform(vx, vy) for vx, vy in piece]
        ins = None
        out = None
        m = len(verts)
        for i in range(m):
            (ax, ay), (bx, by) = verts[i], verts[(i + 1) % m]
            ex, ey = piece[(i + 1) % m][0] - piece[i][0], piece[(i + 1) % m][1] - piece[i][1]
            ln = math.hypot(ex, ey)
            cr = (bx - ax) * (py - ay) - (by - ay) * (px - ax)      # > 0 on the left (CCW pieces)
            i_k = cr >= band * ln
            o_k = cr <= -band * ln
            ins = i_k if ins is None else (ins & i_k)
            out = o_k if out is None else (out | o_k)
        inside_any = ins if inside_any is None else (inside_any | ins)
        outside_all = out if outside_all is None else (outside_all & out)
    if len(PIECES[name]) > 1:
        # points close to the internal seam of two pieces are inside the union but 'ins' of neither: accept by
        # widening only the *inside* claim is not sound, so the seam band is simply left unclaimed
        pass
    return inside_any, outside_all


def install_path_stub():
    """S-path: matplotlib.path.Path.contains_points replaced by a crossing-number test on symbolic points"""
    import matplotlib.path as mpath
    from vtools import symcore as sc, symnp as sn
    if getattr(mpath.Path, '_verif_stub', False):
        return
    RealPath = mpath.Path

    class StubPath(RealPath):
        _verif_stub = True

        def __init__(self, vertices, *a, **kw):
            self._sym_vertices = None
            if sn.has_sym(vertices):
                self._sym_vertices = np.asarray(sn.obj(vertices), dtype=object)
                RealPath.__init__(self, np.zeros(np.shape(vertices), dtype=float), *a, **kw)
            else:
                RealPath.__init__(self, vertices, *a, **kw)

        def contains_points(self, points, *a, **kw):
            if self._sym_vertices is None and not sn.has_sym(points):
                return RealPath.contains_points(self, points, *a, **kw)
            sn.stub_hit('S-path')
            V = self._sym_vertices if self._sym_vertices is not None else np.asarray(self.vertices)
            P = np.asarray(sn.obj(points), dtype=object) if sn.has_sym(points) else np.asarray(points)
            n = len(V)
            if n and bool(sc.same(V[0][0], V[-1][0]) is sc.TRUE) and bool(sc.same(V[0][1], V[-1][1]) is sc.TRUE):
                n -= 1
            out = np.empty(len(P), dtype=object)
            for k in range(len(P)):
                px, py = sc.sreal(sc.lift(P[k][0])), sc.sreal(sc.lift(P[k][1]))
                acc = sc.SymBool(sc.FALSE)
                for i in range(n):
                    j = (i + 1) % n
                    xi, yi = sc.sreal(sc.lift(V[i][0])), sc.sreal(sc.lift(V[i][1]))
                    xj, yj = sc.sreal(sc.lift(V[j][0])), sc.sreal(sc.lift(V[j][1]))
                    straddle = (yi > py) != (yj > py)
                    # px < (xj - xi) * (py - yi) / (yj - yi) + xi   <=>  sign-aware cross-multiplication
                    dy = yj - yi
                    lhs = (px - xi) * dy
                    rhs = (xj - xi) * (py - yi)
                    cond = sc.ite(dy > 0, lhs < rhs, lhs > rhs)
                    acc = acc ^ (straddle & cond)
                out[k] = acc
            if all(sc.is_t(z3.simplify(o.t)) or sc.is_f(z3.simplify(o.t)) for o in out):
                # nothing symbolic was involved after all (operands lifted into the shim by an earlier call): plain booleans
                return np.array([sc.is_t(z3.simplify(o.t)) for o in out], dtype=bool)
            return sn.wrap(out)

    mpath.Path = StubPath


def body_polygon(env, n=2, names=('triangle', 'square', 'closed-quad', 'L', 'collinear-quad'),
                 dthetas=(0.4, PI / 2, -1.1, PI, 2.5)):
    from glue.core.roi import PolygonalROI
    if env.symbolic:
        install_path_stub()
    name = names[env.choice('poly', len(names))]
    vx0, vy0 = POLYS[name]
    roi = PolygonalROI(list(vx0), list(vy0))
    cen0 = shoelace_centroid(list(vx0), list(vy0))
    stage = env.choice('stage', 6)
    transform = lambda x, y: (x, y)
    if stage == 0:
        c = roi.center()
        env.close(c[0], cen0[0], 1e-9, 'polygon %s: center() is the area centroid (x)' % name)
        env.close(c[1], cen0[1], 1e-9, 'polygon %s: center() is the area centroid (y)' % name)
    elif stage == 1:              # move_to a symbolic position: translation by (new - centroid)
        nx, ny = env.real('nx', lo=-20, hi=20), env.real('ny', lo=-20, hi=20)
        roi.move_to(nx, ny)
        ddx, ddy = nx - cen0[0], ny - cen0[1]
        transform = lambda x, y: (x + ddx, y + ddy)
        c = roi.center()
        env.close(c[0], nx, 1e-7, 'polygon %s: centre x after move_to' % name)
        env.close(c[1], ny, 1e-7, 'polygon %s: centre y after move_to' % name)
    elif stage == 2:              # rotate about the (default) centre
        dth = dthetas[env.choice('dtheta', len(dthetas))]
        roi.rotate_to(dth)
        def transform(x, y, dth=dth):
            du, dv = rot(dth, x - cen0[0], y - cen0[1])
            return cen0[0] + du, cen0[1] + dv
        c = roi.center()
        env.close(c[0], cen0[0], 1e-7, 'polygon %s: centre unchanged by rotation (x)' % name)
        env.close(c[1], cen0[1], 1e-7, 'polygon %s: centre unchanged by rotation (y)' % name)
        for k in range(len(vx0)):
            ex, ey = transform(vx0[k], vy0[k])
            env.close(roi.vx[k], ex, 1e-7, 'polygon %s: vertex %d rotated about the centroid (x)' % (name, k))
            env.close(roi.vy[k], ey, 1e-7, 'polygon %s: vertex %d rotated about the centroid (y)' % (name, k))
    elif stage == 3:              # rotate about an explicit centre, then back: identity
        dth = dthetas[env.choice('dtheta', len(dthetas))]
        roi.rotate_to(dth, center=(1.0, -2.0))
        def transform(x, y, dth=dth):
            du, dv = rot(dth, x - 1.0, y + 2.0)
            return 1.0 + du, -2.0 + dv
    elif stage == 4:
        roi2 = roi.copy()
        roi.move_to(100.0, 100.0)
        roi = roi2
    elif stage == 5:
        roi = save_restore(roi)
    pts = []
    for i in range(n):
        px = env.real('px%d' % i, lo=-30, hi=30)
        py = env.real('py%d' % i, lo=-30, hi=30)
        ins, out = poly_classify(name, px, py, transform)
        pts.append((px, py, ins, out))
    check_region(env, roi.contains, pts, 'polygon %s stage=%d' % (name, stage))


PROJ = [
    [[1.0, 0.0, 0.0, 0.0], [0.0, 1.0, 0.0, 0.0], [0.0, 0.0, 1.0, 0.0], [0.0, 0.0, 0.0, 1.0]],
    [[0.5, 0.0, 2.0, 1.0], [0.0, -1.0, 0.25, -2.0], [1.0, 1.0, 1.0, 0.0], [0.0, 0.0, 0.0, 2.0]],
]


def body_projected(env, n=3):
    """Projected3dROI.contains3d with the chunk limit clamped so that several chunks are needed"""
    import glue.core.roi as groi
    from glue.core.roi import Projected3dROI, RectangularROI
    real_iter = groi.iterate_chunks
    if not getattr(real_iter, '_verif_clamp', False):
        def clamped(shape, chunk_shape=None, n_max=None):
            return real_iter(shape, chunk_shape=chunk_shape, n_max=None if n_max is None else min(n_max, 2))
        clamped._verif_clamp = True
        groi.iterate_chunks = clamped
    M = PROJ[env.choice('proj', len(PROJ))]
    x0, w = env.real('x0', lo=-10, hi=10), env.real('w', lo=0.125, hi=10)
    y0, h = env.real('y0', lo=-10, hi=10), env.real('h', lo=0.125, hi=10)
    roi = Projected3dROI(RectangularROI(x0, x0 + w, y0, y0 + h), np.array(M))
    if env.choice('restore', 2):
        class Ctx(IdCtx):
            pass
        rec = roi.__gluestate__(Ctx())
        roi = Projected3dROI.__setgluestate__(rec, Ctx())
    xs = [env.real('x%d' % i, lo=-20, hi=20) for i in range(n)]
    ys = [env.real('y%d' % i, lo=-20, hi=20) for i in range(n)]
    zs = [env.real('z%d' % i, lo=-20, hi=20) for i in range(n)]
    band = (w + h) * 1e-6
    if env.symbolic:
        from vtools import symnp as sn
        mk = lambda v: sn.wrap(np.array(v, dtype=object))
    else:
        mk = lambda v: np.array(v, dtype=float)
    lay = env.choice('layout', 5 if n % 2 == 0 else 2)
    X, Y, Z = mk(xs), mk(ys), mk(zs)
    if lay == 1:
        X, Y, Z = X.reshape((n, 1)), Y.reshape((n, 1)), Z.reshape((n, 1))
    elif lay >= 2:
        # 2-d inputs: C-ordered, Fortran-ordered (same logical content, different memory order), or a mix of layouts
        X, Y, Z = X.reshape((n // 2, 2)), Y.reshape((n // 2, 2)), Z.reshape((n // 2, 2))
        fort = lambda a: a.T.copy().T
        if lay == 3:
            X, Y, Z = fort(X), fort(Y), fort(Z)
        elif lay == 4:
            X = fort(X)
    r = roi.contains3d(X, Y, Z)
    env.true(tuple(np.shape(r)) == tuple(np.shape(X)), 'projected: result shape')
    r = np.asarray(r).reshape(-1)
    for i in range(n):
        sx = (M[0][0] * xs[i] + M[0][1] * ys[i] + M[0][2] * zs[i] + M[0][3]) / M[3][3]
        sy = (M[1][0] * xs[i] + M[1][1] * ys[i] + M[1][2] * zs[i] + M[1][3]) / M[3][3]
        ins = (sx >= x0 + band) & (sx <= x0 + w - band) & (sy >= y0 + band) & (sy <= y0 + h - band)
        out = (sx <= x0 - band) | (sx >= x0 + w + band) | (sy <= y0 - band) | (sy >= y0 + h + band)
        env.true((~ins) | r[i], 'projected: inside => contained (point %d)' % i)
        env.true((~out) | (~r[i]), 'projected: outside => not contained (point %d)' % i)


def harnesses(tier):
    hs = []
    A = ANGLES_QUICK if tier == 'quick' else ANGLES_THOROUGH
    npts = 2 if tier == 'quick' else 3
    chunks = [[a] for a in A]          # one harness per listed angle (parallel)
    for i, ch in enumerate(chunks):
        hs.append(Harness('rect theta=%.10g' % ch[0], body_rect, params=dict(angles=ch, n=npts), validate=10, weight=5,
                          bounds=dict(angles=ch, points=npts, params='symbolic xmin,ymin in [-20,20], w,h in [1/8,20]')))
        hs.append(Harness('ellipse theta=%.10g' % ch[0], body_ellipse, params=dict(angles=ch, n=1), validate=10, weight=3,
                          query_timeout_ms=60000,
                          bounds=dict(angles=ch, points=1, radii=RADII, centre='symbolic in [-20,20]')))
    hs.append(Harness('circle', body_circle, params=dict(n=npts), validate=40,
                      bounds=dict(points=npts, params='symbolic centre in [-20,20], r in [1/8,10]')))
    hs.append(Harness('annulus', body_annulus, params=dict(n=npts), validate=40, bounds=dict(points=npts, annuli=ANNULI)))
    hs.append(Harness('range', body_range, params=dict(n=npts), validate=40, bounds=dict(points=npts)))
    names = list(POLYS)
    for nm in names:
        hs.append(Harness('polygon %s' % nm, body_polygon, params=dict(n=2 if tier == 'quick' else 3, names=(nm,)), validate=40,
                          weight=3, bounds=dict(polygon=nm, vertices=POLYS[nm], points=2),
                          assumptions=['S-path: matplotlib Path.contains_points modelled by the crossing-number test on '
                                       'symbolic points (real C++ routine used on replay)']))
    hs.append(Harness('projected3d', body_projected, params=dict(n=4), validate=40,
                      bounds=dict(points=4, projections=len(PROJ), chunk_limit='clamped to 2 elements',
                                  layouts=['1-d', 'column', '2-d C order', '2-d Fortran order', 'mixed orders']),
                      assumptions=['iterate_chunks n_max clamped to 2 through a wrapper of the name in glue.core.roi']))
    if tier == 'thorough':
        # (a variant with symbolic semi-axes was dropped: z3's nonlinear arithmetic answered 'unknown' after 120 s for 2 of the 37 angles,
        #  which is an inconclusive check, not a pass; more listed semi-axes keep every query linear in the unknowns)
        for i, ch in enumerate(chunks):
            hs.append(Harness('ellipse more radii theta=%.10g' % ch[0], body_ellipse, params=dict(angles=ch, n=1, radii=RADII_MORE),
                              validate=20, query_timeout_ms=120000, wall_s=3000, weight=3,
                              bounds=dict(angles=ch, points=1, radii=RADII_MORE, centre='symbolic in [-20,20]')))
    return hs
