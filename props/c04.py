"""C04 - Views of masks and attribute values equal the same view of the full array."""
import operator
import numpy as np

from vtools.runner import Harness
from .common import mk_data, kf_active

ID = 'C04'
LEVEL = 'other'
EXPLANATION = ('the real Data/Component/SubsetState view plumbing is executed on arrays of SMT terms for every view of a '
               'solver-enumerated view family; z3 proves f(view) == f(None)[view] elementwise (distinct variables per '
               'element make any mis-wired index visible), same for IndexedData against the parent slice')


def items_1d(n):
    """per-dimension view items (ints and positive-step slices), incl. negative/overshooting/empty ones"""
    its = [slice(None), slice(1, None), slice(None, -1), slice(0, None, 2), slice(1, n, 2), slice(-2, None),
           slice(None, None, 3), slice(1, n - 1 if n > 2 else n), slice(0, n + 2), slice(1, 1), 0, -1, n - 1]
    if n > 2:
        its += [1, slice(1, 2)]
    return its


def view_family(shape, kf_empty_ok=True):
    nd = len(shape)
    views = [None, Ellipsis]
    per = [items_1d(n) for n in shape]
    # full-length tuples
    import itertools
    for combo in itertools.product(*per):
        views.append(tuple(combo))
    # shorter tuples
    for k in range(1, nd):
        for combo in itertools.product(*per[:k]):
            views.append(tuple(combo))
    # bare slice / int (1-d style)
    views += [slice(1, None), 0]
    # tuples of integer index arrays, boolean mask
    idx = tuple(np.array([0, n - 1, 0]) for n in shape)
    views.append(idx)
    views.append(tuple(np.array([[0, n - 1], [n - 1, 0]]) for n in shape))
    m = np.zeros(shape, dtype=bool)
    m.flat[::2] = True
    views.append(m)
    # a single integer index array (indexes the first axis), and a boolean array for the first axis inside a tuple
    views.append(np.array([shape[0] - 1, 0]))
    views.append((np.arange(shape[0]) % 2 == 0,))
    return views


def view_repr(v):
    if isinstance(v, np.ndarray):
        return 'array%s' % (v.tolist(),)
    if isinstance(v, tuple):
        return '(' + ', '.join(view_repr(x) for x in v) + ')'
    return repr(v)


def index_full(full, view):
    if view is None:
        return full
    return full[view]


AFFINE = {1: np.array([[2.0, 1.0], [0.0, 1.0]]),
          2: np.array([[2.0, 0.5, 1.0], [0.0, 3.0, -1.0], [0.0, 0.0, 1.0]]),
          3: np.array([[2.0, 0.0, 0.0, 1.0], [0.0, 3.0, 0.5, -1.0], [0.0, 0.0, 1.5, 0.25], [0.0, 0.0, 0.0, 1.0]])}


def build(env, shape, coords=True):
    from glue.core.coordinates import AffineCoordinates
    from glue.core.component import CategoricalComponent
    x = env.reals('x', shape, nan=True)
    y = env.reals('y', shape, lo=-60, hi=60)
    c = AffineCoordinates(AFFINE[len(shape)]) if coords else None
    d = mk_data('d', coords=c, x=x, y=y)
    letters = np.array(['b', 'a', 'c', 'a', 'b', 'c', 'c', 'a', 'b', 'b', 'a', 'c'])[:int(np.prod(shape))].reshape(shape)
    d.add_component(CategoricalComponent(letters.copy()), 'cat')
    d.add_component_link(d.id['x'] * 2 + d.id['y'], 'z')
    return d, x, y, letters


ATT_KINDS = ['stored', 'derived', 'pixel', 'world', 'categorical', 'linked', 'derived-of-pixel']


def body_values(env, shape=(2, 3), kinds=ATT_KINDS, views=None, vsel=None):
    d, x, y, letters = build(env, shape)
    kind = kinds[env.choice('att', len(kinds))]
    fam = view_family(shape)
    if vsel is not None:
        fam = fam[vsel[0]::vsel[1]]
    view = fam[env.choice('view', len(fam))]
    if kind == 'stored':
        cid = d.id['x']
    elif kind == 'derived':
        cid = d.id['z']
    elif kind == 'pixel':
        cid = d.pixel_component_ids[env.choice('pixaxis', len(shape))]
    elif kind == 'world':
        cid = d.world_component_ids[env.choice('worldaxis', len(shape))]
    elif kind == 'categorical':
        cid = d.id['cat']
    elif kind == 'derived-of-pixel':
        d.add_component_link(d.pixel_component_ids[0] * 3 - d.id['x'], 'w')
        cid = d.id['w']
    elif kind == 'linked':
        # an attribute of another dataset reachable through a link
        from glue.core import DataCollection
        from glue.core.component_link import ComponentLink
        other = mk_data('o', q=np.zeros(shape))
        dc = DataCollection([d, other])
        dc.add_link(ComponentLink([d.id['x'], d.id['y']], other.id['q'], using=lambda a, b: a - 3 * b))
        cid = other.id['q']
    try:
        want_full = d[cid]
        want = index_full(np.asarray(want_full) if not env.symbolic else want_full, view)
    except IndexError:
        env.assume(False)       # view not valid for this shape
        return
    if np.size(want) == 0 and kind == 'world' and kf_active('C04/empty-view-world'):
        env.assume(False)
    got = d[cid, view]
    tag = '%s attribute, view %s' % (kind, view_repr(view))
    env.true(tuple(np.shape(got)) == tuple(np.shape(want)), 'shape of values: ' + tag)
    if kind == 'categorical':
        env.true(bool(np.all(np.asarray(got) == np.asarray(want))), 'categorical values: ' + tag)
    else:
        env.same(got, want, 'values: ' + tag)
    # get_data spelled directly and a second (possibly cached) request agree as well
    env.same(d.get_data(cid, view=view) if kind != 'categorical' else 0, want if kind != 'categorical' else 0,
             'get_data: ' + tag)


SEL_KINDS = ['ineq-stored', 'ineq-derived', 'ineq-world', 'range', 'roi-stored', 'roi-pixel', 'roi-pixel-world', 'slice',
             'mask-same', 'mask-foreign', 'element', 'category', 'catroi', 'and', 'multi-or', 'invert']

SLICE_STATES = {1: [[slice(1, 2)], [slice(0, 2)], [slice(1, None)], [slice(0, None, 2)]],
                2: [[slice(1, 2), slice(None)], [slice(None), slice(0, 2)], [slice(0, 1), slice(1, 3, 2)], [slice(0, 2)],
                    [slice(None), slice(1, 2)]],
                3: [[slice(1, 2), slice(None), slice(0, 1)], [slice(None), slice(0, 2), slice(None)], [slice(0, 1), slice(None), slice(1, 2)]]}


def make_state(env, kind, d, shape):
    from glue.core import subset as ss
    from glue.core.roi import RectangularROI, CategoricalROI
    nd = len(shape)
    t = env.real('t')
    if kind == 'ineq-stored':
        return d.id['x'] > t
    if kind == 'ineq-derived':
        return d.id['z'] <= t
    if kind == 'ineq-world':
        return d.world_component_ids[nd - 1] >= t
    if kind == 'range':
        return ss.RangeSubsetState(t, t + env.real('wd', lo=0, hi=5), att=d.id['y'])
    if kind == 'roi-stored':
        x0, y0 = env.real('x0'), env.real('y0')
        return ss.RoiSubsetState(d.id['x'], d.id['y'], RectangularROI(x0, x0 + 2, y0, y0 + 2))
    if kind == 'roi-pixel':       # pixel-space shortcut (only with >= 2 dims)
        a, b = (d.pixel_component_ids[nd - 1], d.pixel_component_ids[0])
        x0, y0 = env.real('x0'), env.real('y0')
        return ss.RoiSubsetState(a, b, RectangularROI(x0, x0 + 1.5, y0, y0 + 1.5))
    if kind == 'roi-pixel-world':
        x0, y0 = env.real('x0'), env.real('y0')
        return ss.RoiSubsetState(d.pixel_component_ids[0], d.world_component_ids[nd - 1], RectangularROI(x0, x0 + 1.5, y0, y0 + 4))
    if kind == 'slice':
        sl = SLICE_STATES[nd]
        return ss.SliceSubsetState(d, sl[env.choice('slicestate', len(sl))])
    if kind == 'mask-same':
        return ss.MaskSubsetState(env.bools('m', shape), d.pixel_component_ids)
    if kind == 'mask-foreign':
        # mask defined on the pixel grid of another (larger) dataset linked pixel-to-pixel by identity
        from glue.core import DataCollection
        from glue.core.link_helpers import LinkSame
        big = tuple(s + 1 for s in shape)
        other = mk_data('o', q=np.zeros(big))
        dc = DataCollection([d, other])
        for i in range(nd):
            dc.add_link(LinkSame(d.pixel_component_ids[i], other.pixel_component_ids[i]))
        return ss.MaskSubsetState(env.bools('m', big), other.pixel_component_ids)
    if kind == 'element':
        return ss.ElementSubsetState(indices=[0, int(np.prod(shape)) - 2], data=d)
    if kind == 'category':
        return ss.CategorySubsetState(d.id['cat'], [0, 2])
    if kind == 'catroi':
        return ss.CategoricalROISubsetState(att=d.id['cat'], roi=CategoricalROI(['a', 'c']))
    if kind == 'and':
        return (d.id['x'] > t) & ss.MaskSubsetState(env.bools('m', shape), d.pixel_component_ids)
    if kind == 'multi-or':
        return ss.MultiOrState([d.id['x'] > t, ss.MaskSubsetState(env.bools('m', shape), d.pixel_component_ids),
                                ss.SliceSubsetState(d, SLICE_STATES[nd][0])])
    if kind == 'invert':
        return ~(d.id['y'] < t)
    raise ValueError(kind)


def body_masks(env, shape=(2, 3), kinds=SEL_KINDS, vsel=None, view_first=True):
    d, x, y, letters = build(env, shape)
    kind = kinds[env.choice('sel', len(kinds))]
    if kind.startswith('roi-pixel') and len(shape) < 2:
        env.assume(False)
    fam = view_family(shape)
    if vsel is not None:
        fam = fam[vsel[0]::vsel[1]]
    view = fam[env.choice('view', len(fam))]
    try:
        probe_shape = np.shape(index_full(np.empty(shape), view))
    except IndexError:
        env.assume(False)
        return
    if kind in ('category', 'catroi') and len(probe_shape) == 0 and kf_active('C04/category-scalar-view'):
        env.assume(False)       # recorded finding: single-element view of a categorical attribute loses its codes
    if int(np.prod(probe_shape)) == 0 and 'world' in kind and kf_active('C04/empty-view-world'):
        env.assume(False)
    st = make_state(env, kind, d, shape)
    tag = '%s selection, view %s' % (kind, view_repr(view))
    if view_first:
        # restricted request first (nothing cached yet, nothing evaluated on the full array yet)
        try:
            got = d.get_mask(st, view=view)
        except IndexError:
            got = None
        full = d.get_mask(st)
    else:
        full = d.get_mask(st)
        try:
            got = d.get_mask(st, view=view)
        except IndexError:
            got = None
    try:
        want = index_full(full, view)
    except IndexError:
        env.assume(False)
        return
    if np.size(want) == 0 and 'world' in kind and kf_active('C04/empty-view-world'):
        env.assume(False)
    if kind in ('category', 'catroi') and np.ndim(want) == 0 and kf_active('C04/category-scalar-view'):
        env.assume(False)       # recorded finding: single-element view of a categorical attribute loses its codes
    env.true(got is not None, 'restricted mask request failed although the view is valid: ' + tag)
    env.true(tuple(np.shape(got)) == tuple(np.shape(want)), 'shape of mask: ' + tag)
    env.same(got, want, 'mask: ' + tag)
    env.true(tuple(np.shape(full)) == tuple(shape), 'full mask has the dataset shape: ' + tag)
    # the parts of a composite selection obey the same law after the whole has been evaluated (cached member masks
    # must not have been altered by evaluating the combination for this view)
    member = getattr(st, 'state1', None) or (getattr(st, 'states', None) or [None])[0]
    if member is not None:
        gm = d.get_mask(member, view=view)
        fm = index_full(d.get_mask(member, view=(Ellipsis if view is None else None)), view)
        env.same(gm, fm, 'mask of the first member of the composite: ' + tag)
    # through a Subset object as well
    from glue.core.subset import Subset
    s = d.new_subset()
    s.subset_state = st
    env.same(s.to_mask(view), want, 'Subset.to_mask(view): ' + tag)


def body_indexed(env, shape=(2, 3, 2), reassign=True, stats=True):
    """IndexedData: values and masks equal those of the parent's slice, also after the indices are changed"""
    from glue.core.data_derived import IndexedData
    d, x, y, letters = build(env, shape)
    nd = len(shape)
    keep = env.choice('kept_axes_pattern', 2 ** nd - 2) + 1          # which axes are kept (not all, not none)
    idx = tuple(None if (keep >> i) & 1 else (env.choice('index%d' % i, shape[i] + 1) - 1) for i in range(nd))          # -1 .. n-1
    if all(i is None for i in idx):
        env.assume(False)
    ind = IndexedData(d, idx)
    rounds = [idx]
    if reassign:
        idx2 = tuple(None if i is None else ((i + 1) % shape[k] if i >= 0 else -2 if shape[k] > 1 else -1) for k, i in enumerate(idx))
        rounds.append(idx2)
    t = env.real('t')
    for r, cur in enumerate(rounds):
        if r:
            ind.indices = cur
        parent_view = tuple(slice(None) if i is None else i for i in cur)
        rshape = tuple(shape[k] for k, i in enumerate(cur) if i is None)
        env.true(tuple(ind.shape) == rshape, 'IndexedData shape for indices %s' % (cur,))
        for cname in ('x', 'z'):
            cid = [c for c in ind.main_components if c.label == cname] if cname == 'x' else None
            pcid = d.id[cname]
            if cname == 'x':
                env.same(ind.get_data(cid[0]), d[pcid][parent_view], 'IndexedData values of %s, indices %s' % (cname, cur))
            sub = tuple(slice(0, None, 2) if k == 0 else slice(None) for k in range(len(rshape)))
            full_sub = d[pcid][parent_view][sub]
            env.same(ind.get_data(pcid, view=sub), full_sub, 'IndexedData values of %s with a view, indices %s' % (cname, cur))
        for a in range(len(rshape)):
            pa = [k for k, i in enumerate(cur) if i is None][a]
            env.same(ind.get_data(ind.pixel_component_ids[a]), d[d.pixel_component_ids[pa]][parent_view],
                     'IndexedData pixel axis %d, indices %s' % (a, cur))
        st = (d.id['x'] > t) & (d.id['y'] < t + 1)
        env.same(ind.get_mask(st), d.get_mask(st)[parent_view], 'IndexedData mask, indices %s' % (cur,))
        sub = tuple(slice(None, None, 2) if k == len(rshape) - 1 else slice(None) for k in range(len(rshape)))
        env.same(ind.get_mask(st, view=sub), d.get_mask(st)[parent_view][sub], 'IndexedData mask with a view, indices %s' % (cur,))
        if stats:
            # statistics and histograms equal those of the parent's slice
            if env.symbolic:
                from .c10 import install_hist_stub, _HIST
                install_hist_stub()
                _HIST['true_hi'] = 64.0
            pv = d[d.id['y']][parent_view]
            got = ind.compute_statistic('sum', d.id['y'])
            env.same(got, np.sum(pv), 'IndexedData sum equals the sum over the parent slice, indices %s' % (cur,))
            got = ind.compute_statistic('maximum', d.id['y'], axis=0)
            env.same(got, np.max(pv, axis=0), 'IndexedData maximum along axis 0, indices %s' % (cur,))
            h = ind.compute_histogram([d.id['y']], range=[(-64.0, 64.0)], bins=[1])
            env.same(h[0], float(np.size(pv)), 'IndexedData histogram total equals the size of the parent slice, indices %s' % (cur,))
            h2 = ind.compute_histogram([d.id['y']], range=[(-64.0, 64.0)], bins=[2], subset_state=d.id['y'] > t)
            inb = [((pv > t) & (pv >= lo_) & (pv < hi_)) for lo_, hi_ in ((-64.0, 0.0), (0.0, 64.5))]
            for b in range(2):
                env.same(h2[b], np.sum(np.where(inb[b], 1.0, 0.0)), 'IndexedData histogram bin %d with a selection, indices %s' % (b, cur))


def _known_empty_world():
    """demo of the recorded finding: empty view of a world attribute raises"""
    from glue.core import Data
    from glue.core.coordinates import AffineCoordinates
    d = Data(x=np.zeros((2, 3)), coords=AffineCoordinates(AFFINE[2]))
    try:
        d[d.world_component_ids[0], (slice(2, 1),)]
    except IndexError:
        return True
    return False


def _known_category_scalar():
    from glue.core import Data
    from glue.core.component import CategoricalComponent
    from glue.core.subset import CategorySubsetState
    d = Data()
    d.add_component(CategoricalComponent(np.array(['b', 'a', 'c'])), 'cat')
    st = CategorySubsetState(d.id['cat'], [0, 2])
    return bool(d.get_mask(st)[1]) != bool(d.get_mask(st, view=(1,)))


KNOWN_DEMOS = {'C04/empty-view-world': _known_empty_world, 'C04/category-scalar-view': _known_category_scalar}


def harnesses(tier):
    hs = []
    if tier == 'quick':
        shapes = [(2, 3)]
        nsplit = 6
    else:
        shapes = [(4,), (3, 4), (2, 3, 2)]
        nsplit = 12
    for shape in shapes:
        nv = len(view_family(shape))
        for i in range(nsplit):
            hs.append(Harness('values %s views#%d/%d' % (shape, i, nsplit), body_values, params=dict(shape=shape, vsel=(i, nsplit)),
                              validate=15, weight=3, max_paths=100000, wall_s=3000,
                              bounds=dict(shape=shape, attribute_kinds=ATT_KINDS, views='%d views (every %dth from %d)' % (nv, nsplit, i))))
            hs.append(Harness('masks %s views#%d/%d' % (shape, i, nsplit), body_masks,
                              params=dict(shape=shape, vsel=(i, nsplit), view_first=(i % 2 == 0)),
                              validate=15, weight=5, max_paths=100000, wall_s=3000,
                              bounds=dict(shape=shape, selection_kinds=SEL_KINDS, views='%d views (every %dth from %d)' % (nv, nsplit, i))))
    if tier == 'quick':
        # 1-d data take their own code paths for views (bare slices, single arrays)
        hs.append(Harness('values (3,) all views', body_values, params=dict(shape=(3,)), validate=15, weight=3, max_paths=100000, wall_s=3000,
                          bounds=dict(shape=(3,), attribute_kinds=ATT_KINDS, views=len(view_family((3,))))))
        hs.append(Harness('masks (3,) all views', body_masks, params=dict(shape=(3,)), validate=15, weight=5, max_paths=100000, wall_s=3000,
                          bounds=dict(shape=(3,), selection_kinds=SEL_KINDS, views=len(view_family((3,))))))
    ishapes = [(2, 3)] if tier == 'quick' else [(2, 3), (3, 2), (2, 2, 2)]      # (3-d shapes with 12 elements did not finish within the budget)
    for shape in ishapes:
        hs.append(Harness('indexed %s' % (shape,), body_indexed, params=dict(shape=shape), validate=15, wall_s=3000, max_paths=500000,
                          bounds=dict(shape=shape, indices='all index tuples, reassigned once')))
    return hs
