"""C17 - A dataset stays structurally consistent and announces every structural change."""
import numpy as np

from vtools.runner import Harness
from .common import mk_data, kf_active

ID = 'C17'
LEVEL = 'model_checking'
EXPLANATION = ('bounded model checking of the real Data mutation API: every sequence of operations up to the depth bound '
               '(operation and argument are solver-chosen, valid and invalid arguments included) is executed on a real Data '
               'object, inside and outside a DataCollection; after every step the structural invariant (shapes, one pixel '
               'attribute per dimension, world attributes iff coordinates, unique identifiers in stable order, lookup by name) '
               'and the hub message log (every change announced once with the right dataset and component, nothing else) are '
               'checked, and the values of every attribute are proved (z3) equal to the expected symbolic values')

OPS = ['add component', 'add component (wrong shape)', 'add component (duplicate label)', 'add derived', 'add derived of derived',
       'remove component', 'remove foreign component', 'reorder (reverse main)', 'reorder (reverse derived)', 'reorder (invalid)', 'update_id', 'update_components',
       'update_components (wrong shape)', 'update_values_from_data (same shape)', 'update_values_from_data (new shape)',
       'set coords', 'unset coords', 'set label']


class State:
    pass


def setup(env, shape, in_collection, coords_kind):
    from glue.core import DataCollection
    from glue.core.coordinates import AffineCoordinates, IdentityCoordinates
    from glue.core.hub import HubListener
    from glue.core import message as msg
    from .c04 import AFFINE
    s = State()
    s.env = env
    s.counter = 0
    s.values = {}
    x = env.reals('x', shape)
    y = env.reals('y', shape)
    coords = None if coords_kind == 0 else (IdentityCoordinates(n_dim=len(shape)) if coords_kind == 1 else AffineCoordinates(AFFINE[len(shape)]))
    d = mk_data('d', coords=coords, x=x, y=y)
    s.d = d
    s.values[id(d.id['x'])] = x
    s.values[id(d.id['y'])] = y
    s.deps = {}                 # id(derived cid) -> set of id(cid) it depends on (transitively)
    s.log = []
    s.dc = None
    s.keepalive = list(d.components)         # identifiers are compared by id(): never let one be garbage collected
    if in_collection:
        s.dc = DataCollection([d])

        class L(HubListener):
            def notify(self, m):
                pass
        s.listener = L()
        keep = (msg.DataAddComponentMessage, msg.DataRemoveComponentMessage, msg.DataReorderComponentMessage,
                msg.ComponentsChangedMessage, msg.DataUpdateMessage, msg.NumericalDataChangedMessage)
        s.dc.hub.subscribe(s.listener, msg.Message, handler=lambda m: s.log.append(m) if isinstance(m, keep) else None)
    return s


def fresh_values(s, shape, tag):
    s.counter += 1
    return s.env.reals('%s%d' % (tag, s.counter), shape)


def main_like(d):
    return [c for c in d.components if c in d.main_components or c in d.derived_components]


def check_structure(s, tag):
    env, d = s.env, s.d
    from glue.core.component_id import PixelComponentID
    msgs = []
    comps = list(d.components)
    if len(set(id(c) for c in comps)) != len(comps):
        msgs.append('component identifiers are not unique')
    for c in comps:
        comp = d.get_component(c)
        if tuple(comp.shape) != tuple(d.shape):
            msgs.append('component %s has shape %s, dataset has %s' % (c.label, comp.shape, d.shape))
    pix = list(d.pixel_component_ids)
    if len(pix) != d.ndim or any(p not in comps for p in pix) or sorted(p.axis for p in pix) != list(range(d.ndim)):
        msgs.append('pixel attributes: %s for %d dimensions' % ([p.label for p in pix], d.ndim))
    world = list(d.world_component_ids)
    want_world = d.ndim if d.coords is not None else 0
    if len(world) != want_world or any(not any(w is c for c in comps) for w in world):
        msgs.append('world attributes: %s, expected %d (coords %s)' % ([w.label for w in world], want_world, type(d.coords).__name__))
    ncoord = len(d.coordinate_components)
    if ncoord != d.ndim + want_world:
        msgs.append('%d coordinate components, expected %d' % (ncoord, d.ndim + want_world))
    # lookup by name: unique match (main before derived before coordinate) or None
    labels = set(c.label for c in comps)
    for lab in labels:
        got = d.find_component_id(lab)
        exp = None
        for group in (d.main_components, d.derived_components, d.coordinate_components):
            m = [c for c in group if c.label == lab]
            if len(m) == 1:
                exp = m[0]
                break
            if len(m) > 1:
                exp = None
                break
        if got is not exp:
            msgs.append('find_component_id(%r) returned %r, expected %r' % (lab, got, exp))
    if d.find_component_id('no such label') is not None:
        msgs.append('find_component_id of an unknown label is not None')
    env.true(not msgs, '%s: %s' % (tag, '; '.join(msgs) or 'structure'))
    # values of every stored / derived attribute the model knows
    for c in comps:
        if id(c) in s.values:
            env.same(d[c], s.values[id(c)], '%s: values of %s' % (tag, c.label))


def expect_messages(s, tag, before, after, op, extra=None):
    """compare the hub log of this step with the changes that actually happened"""
    if s.dc is None:
        return
    from glue.core import message as msg
    env, d, log = s.env, s.d, s.log
    extra = extra or {}
    probs = []
    for m in log:
        if m.sender is not d:
            probs.append('message %s from another sender' % type(m).__name__)
    added = [c for c in after if not any(c is b for b in before)]
    removed = [c for c in before if not any(c is a for a in after)]
    if op == 'update_id':
        added, removed = [], []
    adds = [m.component_id for m in log if type(m) is msg.DataAddComponentMessage]
    rems = [m.component_id for m in log if type(m) is msg.DataRemoveComponentMessage]
    if sorted(id(c) for c in adds) != sorted(id(c) for c in added):
        probs.append('added %s but announced %s' % ([c.label for c in added], [c.label for c in adds]))
    if sorted(id(c) for c in rems) != sorted(id(c) for c in removed):
        probs.append('removed %s but announced %s' % ([c.label for c in removed], [c.label for c in rems]))
    changed_msgs = [m for m in log if isinstance(m, msg.ComponentsChangedMessage)]
    replaced = [m for m in log if type(m) is msg.ComponentReplacedMessage]
    if (added or removed) and not changed_msgs:
        probs.append('components changed but no ComponentsChangedMessage')
    if op == 'update_id':
        if len(replaced) != 1 or replaced[0].old is not extra['old'] or replaced[0].new is not extra['new']:
            probs.append('update_id not announced by exactly one ComponentReplacedMessage(old, new)')
    elif replaced:
        probs.append('ComponentReplacedMessage without update_id')
    reorder = [m for m in log if type(m) is msg.DataReorderComponentMessage]
    common_before = [c for c in before if any(c is a for a in after)]
    common_after = [c for c in after if any(c is b for b in before)]
    order_changed = [id(c) for c in common_before] != [id(c) for c in common_after]
    if op.startswith('reorder') and order_changed:
        if len(reorder) != 1 or [id(c) for c in reorder[0].component_ids] != [id(c) for c in after]:
            probs.append('reorder not announced by one DataReorderComponentMessage carrying the new order')
    elif reorder:
        probs.append('DataReorderComponentMessage although the order did not change')
    if not (added or removed or order_changed) and op != 'update_id' and changed_msgs:
        probs.append('ComponentsChangedMessage although nothing changed')
    if op not in ('update_id',) and not op.startswith('reorder') and order_changed:
        probs.append('relative order of surviving components changed: %s -> %s' % ([c.label for c in common_before], [c.label for c in common_after]))
    num = [m for m in log if type(m) is msg.NumericalDataChangedMessage]
    if extra.get('values_changed'):
        if len(num) < 1:
            probs.append('values replaced but no NumericalDataChangedMessage')
    elif num:
        probs.append('NumericalDataChangedMessage although no values were replaced')
    upd = [m for m in log if type(m) is msg.DataUpdateMessage and m.attribute == 'label']
    if extra.get('label_changed'):
        if len(upd) != 1:
            probs.append('label change announced %d times' % len(upd))
    elif upd:
        probs.append('label update announced although the label did not change')
    env.true(not probs, '%s: messages: %s | log %s' % (tag, '; '.join(probs) or 'ok', [type(m).__name__ for m in log]))


def step(s, op, shape):
    """perform one operation; keeps the model (values, deps) in sync; returns extra info for the message check"""
    from glue.core.component import Component
    from glue.core.component_id import ComponentID
    from glue.core.coordinates import AffineCoordinates
    from .c04 import AFFINE
    env, d = s.env, s.d
    name = OPS[op]
    extra = {}
    mains = list(d.main_components)
    if name == 'add component':
        v = fresh_values(s, d.shape, 'v')
        cid = d.add_component(Component(v), 'a%d' % s.counter)
        s.values[id(cid)] = v
    elif name == 'add component (wrong shape)':
        bad = tuple(n + 1 for n in d.shape)
        try:
            d.add_component(Component(np.zeros(bad)), 'bad')
            env.true(False, 'a component of the wrong shape must be rejected')
        except ValueError:
            pass
    elif name == 'add component (duplicate label)':
        v = fresh_values(s, d.shape, 'v')
        cid = d.add_component(Component(v), 'x')
        s.values[id(cid)] = v
    elif name == 'add derived':
        if not mains:
            env.assume(False)
        src = mains[0]
        s.counter += 1
        dc_ = d.add_component_link(src * 2, 'dz%d' % s.counter)
        cid = dc_.link.get_to_id()
        if id(src) in s.values:
            s.values[id(cid)] = s.values[id(src)] * 2
        s.deps[id(cid)] = {id(src)}
    elif name == 'add derived of derived':
        ders = list(d.derived_components)
        if not ders:
            env.assume(False)
        src = ders[-1]
        s.counter += 1
        dc_ = d.add_component_link(src + 1, 'dd%d' % s.counter)
        cid = dc_.link.get_to_id()
        if id(src) in s.values:
            s.values[id(cid)] = s.values[id(src)] + 1
        s.deps[id(cid)] = {id(src)} | s.deps.get(id(src), set())
    elif name == 'remove component':
        cands = main_like(d)
        if not cands:
            env.assume(False)
        victim = cands[env.choice('victim%d' % len(s.trace), len(cands))]
        d.remove_component(victim)
        gone = {id(victim)} | {k for k, v in s.deps.items() if id(victim) in v}
        extra['expected_gone'] = gone
        after_ids = set(id(c) for c in d.components)
        env.true(not (gone & after_ids), 'removed attribute and all its dependants are gone')
        env.true(all((id(c) in after_ids) for c in cands if id(c) not in gone), 'nothing else was removed')
    elif name == 'remove foreign component':
        d.remove_component(ComponentID('foreign'))
    elif name == 'reorder (reverse main)':
        comps = list(d.components)
        idx = [i for i, c in enumerate(comps) if c in d.main_components]
        new = list(comps)
        for i, j in zip(idx, reversed(idx)):
            new[i] = comps[j]
        d.reorder_components(new)
        env.true([id(c) for c in d.components] == [id(c) for c in new], 'components are in the requested order')
    elif name == 'reorder (reverse derived)':
        comps = list(d.components)
        idx = [i for i, c in enumerate(comps) if c in d.derived_components]
        if len(idx) < 2:
            env.assume(False)
        new = list(comps)
        for i, j in zip(idx, reversed(idx)):
            new[i] = comps[j]
        d.reorder_components(new)
        env.true([id(c) for c in d.components] == [id(c) for c in new], 'components are in the requested order')
    elif name == 'reorder (invalid)':
        comps = list(d.components)
        try:
            d.reorder_components(comps[:-1])
            env.true(False, 'an incomplete ordering must be rejected')
        except ValueError:
            pass
    elif name == 'update_id':
        if not mains:
            env.assume(False)
        old = mains[-1]
        if any(id(old) in v for v in s.deps.values()) and kf_active('C17/update-id-dependants'):
            env.assume(False)
        s.counter += 1
        new = ComponentID('renamed%d' % s.counter)
        d.update_id(old, new)
        if id(old) in s.values:
            s.values[id(new)] = s.values.pop(id(old))
        for k in list(s.deps):
            if id(old) in s.deps[k]:
                s.deps[k] = (s.deps[k] - {id(old)}) | {id(new)}
        extra.update(old=old, new=new)
        name = 'update_id'
    elif name == 'update_components':
        if not mains:
            env.assume(False)
        tgt = mains[0]
        v = fresh_values(s, d.shape, 'u')
        d.update_components({tgt: v})
        s.values[id(tgt)] = v
        for k, deps in s.deps.items():
            if id(tgt) in deps:
                s.values.pop(k, None)          # derived values follow (checked under C05/C14): not modelled here
        extra['values_changed'] = True
    elif name == 'update_components (wrong shape)':
        if not mains:
            env.assume(False)
        try:
            d.update_components({mains[0]: np.zeros(tuple(n + 1 for n in d.shape))})
            env.true(False, 'values of the wrong shape must be rejected')
        except ValueError:
            pass
    elif name.startswith('update_values_from_data'):
        newshape = d.shape if 'same' in name else tuple(n + 1 for n in d.shape)
        s.counter += 1
        vx = env.reals('ox%d' % s.counter, newshape)
        vq = env.reals('oq%d' % s.counter, newshape)
        other = mk_data(d.label, coords=d.coords, x=vx, q=vq)
        had_dup_x = len([c for c in d.components if c.label == 'x']) > 1
        if had_dup_x:
            try:
                d.update_values_from_data(other)
                env.true(False, 'non-unique labels must be rejected')
            except ValueError:
                pass
        else:
            d.update_values_from_data(other)
            s.values = {}
            s.deps = {}
            s.values[id(d.id['x'])] = vx
            s.values[id(d.id['q'])] = vq
            extra['values_changed'] = True
    elif name == 'set coords':
        d.coords = AffineCoordinates(AFFINE[d.ndim] * 1.0)
    elif name == 'unset coords':
        d.coords = None
    elif name == 'set label':
        s.counter += 1
        old = d.label
        d.label = 'label%d' % (s.counter % 2)
        extra['label_changed'] = (old != d.label)
    extra['name'] = name
    return extra


def body(env, k=3, first=None, shape=(3,), in_collection=1, coords_kind=None, ops=None):
    ops = list(range(len(OPS))) if ops is None else ops
    ck = env.choice('coords', 3) if coords_kind is None else coords_kind
    s = setup(env, shape, in_collection, ck)
    s.trace = []
    check_structure(s, 'initial')
    for i in range(k):
        op = first if (i == 0 and first is not None) else ops[env.choice('op%d' % i, len(ops))]
        before = list(s.d.components)
        del s.log[:]
        s.trace.append(OPS[op])
        extra = step(s, op, shape)
        after = list(s.d.components)
        s.keepalive += before + after
        tag = 'after step %d of %s' % (i, s.trace)
        check_structure(s, tag)
        expect_messages(s, tag, before, after, extra.get('name', OPS[op]), extra)
        env.count('transitions')
        env.state((tuple(c.label for c in after), s.d.shape, type(s.d.coords).__name__, s.d.label))
    env.count('traces')


def _known_update_id():
    from .c14 import _known_update_id as f
    return f()


KNOWN_DEMOS = {'C17/update-id-dependants': _known_update_id}


def harnesses(tier):
    hs = []
    k = 3 if tier == 'quick' else 4
    shapes = [(2, 2)] if tier == 'quick' else [(3,), (2, 2)]
    for shape in shapes:
        for f in range(len(OPS)):
            if OPS[f] in ('add derived of derived', 'reorder (reverse derived)'):
                continue
            for inc in (1, 0):
                if inc == 0 and tier == 'quick' and f % 2:
                    continue
                hs.append(Harness('%s k=%d hub=%d first=%s' % (shape, k, inc, OPS[f]), body,
                                  params=dict(k=k, first=f, shape=shape, in_collection=inc), max_paths=5000000, wall_s=3400, weight=3,
                                  bounds=dict(steps=k, shape=shape, operations=OPS, in_collection=bool(inc), coords=['none', 'identity', 'affine'],
                                              first=OPS[f])))
    # chains of derived attributes need three set-up steps: fixed prefix, then free steps
    hs.append(Harness('derived chain then 2 free steps', body_chain, params=dict(k=2), max_paths=5000000, wall_s=3400, weight=3,
                      bounds=dict(prefix=['add derived', 'add derived of derived', 'add derived of derived'], steps=2)))
    return hs


def body_chain(env, k=2, shape=(3,)):
    s = setup(env, shape, 1, env.choice('coords', 2) * 2)
    s.trace = []
    for name in ('add derived', 'add derived of derived', 'add derived of derived'):
        s.trace.append(name)
        step(s, OPS.index(name), shape)
    check_structure(s, 'after the prefix')
    for i in range(k):
        op = env.choice('op%d' % i, len(OPS))
        before = list(s.d.components)
        del s.log[:]
        s.trace.append(OPS[op])
        extra = step(s, op, shape)
        after = list(s.d.components)
        s.keepalive += before + after
        tag = 'after step %d of %s' % (i, s.trace)
        check_structure(s, tag)
        expect_messages(s, tag, before, after, extra.get('name', OPS[op]), extra)
        env.count('transitions')
        env.state((tuple(c.label for c in after), s.d.shape))
    env.count('traces')
