"""Shared helpers for harness bodies (work in symbolic and concrete mode)."""
import os
import numpy as np


def kf_active(kid):
    return kid in os.environ.get('VERIF_ACTIVE_KF', '').split(',')


def mk_data(label, coords=None, **arrays):
    """real Data whose numeric components hold the given (symbolic or concrete) arrays"""
    from glue.core import Data
    from glue.core.component import Component
    d = Data(label=label, coords=coords)
    for k, a in arrays.items():
        if isinstance(a, np.ndarray) and (a.dtype == object or a.dtype.kind in 'biuf'):
            a = a.copy() if a.dtype != object else a
            d.add_component(Component(a), k)
        else:
            d.add_component(a, k)
    return d


def arr_list(a):
    return np.asarray(a).tolist()


SHAPES_QUICK = [(3,), (2, 2)]
SHAPES_THOROUGH = [(4,), (2, 3), (2, 2, 2)]


def bnot(x):
    return ~x


def elementwise(f, *arrs):
    """apply scalar function elementwise over same-shape arrays -> object/np array"""
    a0 = np.asarray(arrs[0])
    out = np.empty(a0.shape, dtype=object)
    for i in np.ndindex(*a0.shape):
        out[i] = f(*[np.asarray(a)[i] for a in arrs])
    return out


def full_index_grid(shape):
    return list(np.ndindex(*shape))
