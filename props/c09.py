"""C09 - A drawn region becomes a selection of exactly the points the region contains."""
import itertools
import math
import numpy as np

from vtools.runner import Harness
from .common import mk_data, kf_active

ID = 'C09'
LEVEL = 'other'
EXPLANATION = ('roi_to_subset_state and the selection classes it returns (range, and-of-ranges, categorical ROI, categorical 2-d, '
               'categorical multi-range, ROI state) are executed for every axis-kind combination, every ordering of the '
               'categories and symbolic region parameters (range ends, rectangle bounds, translation of polygon-like regions) '
               'and symbolic numeric values; z3 proves each row selected iff its plotted position lies in the region, outside a '
               'boundary band')

LABELS = ['a', 'b', 'c']


def make_axis(env, kind, name, nrows, perm_index):
    """returns (component-or-array, plotted positions per row, categories-or-None)"""
    from glue.core.component import CategoricalComponent
    if kind == 'num':
        v = env.reals(name, (nrows,), nan=True)
        return v, [v[i] for i in range(nrows)], None
    order = list(itertools.permutations(LABELS))[perm_index]
    cats = np.array(order)
    if env.symbolic:
        from vtools import symnp as sn
        cats = cats.view(sn.ForkIndexArray)
    labels = np.array([LABELS[i % len(LABELS)] for i in range(nrows)])
    comp = CategoricalComponent(labels, categories=cats)
    pos = [np.float64(list(order).index(l)) for l in labels]
    return comp, pos, cats


def build(env, xkind, ykind, nrows, xperms=None, yperms=None):
    from glue.core import Data
    from glue.core.component import Component
    xperms = list(range(6)) if xperms is None else xperms
    yperms = list(range(6)) if yperms is None else yperms
    px = xperms[env.choice('xperm', len(xperms))] if xkind == 'cat' else 0
    py = yperms[env.choice('yperm', len(yperms))] if ykind == 'cat' else 0
    xc, xpos, xcats = make_axis(env, xkind, 'x', nrows, px)
    yc, ypos, ycats = make_axis(env, ykind, 'y', nrows, py)
    d = Data(label='d')
    for nm, c, k in (('x', xc, xkind), ('y', yc, ykind)):
        d.add_component(Component(c) if k == 'num' else c, nm)
    return d, xpos, ypos, xcats, ycats


KINDS = [('num', 'num'), ('cat', 'num'), ('num', 'cat'), ('cat', 'cat')]
TOL = 1e-6


def finite(v):
    r = (v == v)
    return np.bool_(r) if isinstance(r, bool) else r


def body_ranges(env, kinds=0, nrows=3, xperms=None, yperms=None):
    """x/y ranges and rectangles with symbolic bounds"""
    from glue.core.subset import roi_to_subset_state
    from glue.core.roi import XRangeROI, YRangeROI, RectangularROI, RangeROI
    xkind, ykind = KINDS[kinds]
    d, xpos, ypos, xcats, ycats = build(env, xkind, ykind, nrows, xperms, yperms)
    lo = env.real('lo', lo=-0.75, hi=2.5)
    wd = env.real('wd', lo=0.01, hi=3)
    hi = lo + wd
    lo2 = env.real('lo2', lo=-0.75, hi=2.5)
    wd2 = env.real('wd2', lo=0.01, hi=3)
    hi2 = lo2 + wd2
    region = env.choice('region', 4)
    if region == 0:
        roi = XRangeROI(lo, hi)
    elif region == 1:
        roi = YRangeROI(lo, hi)
    elif region == 2:
        roi = RangeROI('x', lo, hi)
    else:
        roi = RectangularROI(lo, hi, lo2, hi2)
    st = roi_to_subset_state(roi, x_att=d.id['x'], y_att=d.id['y'], x_categories=xcats, y_categories=ycats)
    got = d.get_mask(st)
    env.true(tuple(np.shape(got)) == (nrows,), 'mask shape')
    conds = []
    for i in range(nrows):
        x, y = xpos[i], ypos[i]
        if region in (0, 2):
            inside = (x >= lo + TOL) & (x <= hi - TOL)
            outside = (x <= lo - TOL) | (x >= hi + TOL) | ~finite(x)
        elif region == 1:
            inside = (y >= lo + TOL) & (y <= hi - TOL)
            outside = (y <= lo - TOL) | (y >= hi + TOL) | ~finite(y)
        else:
            inside = (x >= lo + TOL) & (x <= hi - TOL) & (y >= lo2 + TOL) & (y <= hi2 - TOL)
            outside = (x <= lo - TOL) | (x >= hi + TOL) | (y <= lo2 - TOL) | (y >= hi2 + TOL) | ~finite(x) | ~finite(y)
        conds.append((~inside) | got[i])
        conds.append((~outside) | (~got[i]))
    env.true_all(conds, 'region %d on axes (%s, %s): selected <=> plotted position inside (band %g excepted)' % (region, xkind, ykind, TOL))


SHAPES = {
    'triangle': ([0.2, 2.6, 0.9], [0.3, 0.8, 2.7]),
    'box': ([-0.5, 1.5, 1.5, -0.5], [0.5, 0.5, 2.5, 2.5]),
    'L': ([-0.4, 2.4, 2.4, 0.6, 0.6, -0.4], [-0.4, -0.4, 0.6, 0.6, 2.4, 2.4]),
}
SHAPE_PIECES = {
    'triangle': [[(0.2, 0.3), (2.6, 0.8), (0.9, 2.7)]],
    'box': [[(-0.5, 0.5), (1.5, 0.5), (1.5, 2.5), (-0.5, 2.5)]],
    'L': [[(-0.4, -0.4), (2.4, -0.4), (2.4, 0.6), (-0.4, 0.6)], [(-0.4, 0.6), (0.6, 0.6), (0.6, 2.4), (-0.4, 2.4)]],
}


def classify_poly(name, px, py, dx, dy, band):
    inside_any, outside_all = None, None
    for piece in SHAPE_PIECES[name]:
        ins, out = None, None
        m = len(piece)
        for i in range(m):
            (ax, ay), (bx, by) = piece[i], piece[(i + 1) % m]
            ex, ey = bx - ax, by - ay
            ln = math.hypot(ex, ey)
            cr = ex * (py - (ay + dy)) - ey * (px - (ax + dx))
            i_k = cr >= band * ln
            o_k = cr <= -band * ln
            ins = i_k if ins is None else (ins & i_k)
            out = o_k if out is None else (out | o_k)
        inside_any = ins if inside_any is None else (inside_any | ins)
        outside_all = out if outside_all is None else (outside_all & out)
    return inside_any, outside_all


def body_polylike(env, kinds=1, shape='triangle', nrows=3, xperms=None, yperms=None, thetas=None):
    """polygon-like regions (polygon with a symbolic translation; circle / ellipse with a symbolic centre)"""
    from glue.core.subset import roi_to_subset_state
    from glue.core.roi import PolygonalROI, CircularROI, EllipticalROI
    if env.symbolic:
        from .c08 import install_path_stub
        install_path_stub()
        _clamp_linspace()
        _plain_constant_results()
    xkind, ykind = KINDS[kinds]
    if env.symbolic:
        # rotated regions index the category positions by symbolic masks: keep those position arrays inside the shim
        import glue.core.subset as gsub
        from vtools import symnp as sn
        gsub.np = sn.PL if (shape in ('rotrect', 'ellipse') and (xkind, ykind) == ('cat', 'cat')) else sn.P
    dx = env.real('dx', lo=-1.5, hi=1.5)
    dy = env.real('dy', lo=-1.5, hi=1.5)
    if (xkind, ykind) == ('num', 'num') and shape in ('circle', 'ellipse'):
        return _numeric_conic(env, shape, nrows, dx, dy)
    d, xpos, ypos, xcats, ycats = build(env, xkind, ykind, nrows, xperms, yperms)
    if shape in SHAPES:
        vx, vy = SHAPES[shape]
        roi = PolygonalROI([v + dx for v in vx], [v + dy for v in vy])
        band = 1e-4

        def classify(px, py):
            return classify_poly(shape, px, py, dx, dy, band)
    elif shape == 'rotrect':
        # a rotated rectangle (long and thin, so that the rotation matters) with a symbolic centre
        from glue.core.roi import RectangularROI
        from vtools import symnp as sn
        hw, hh = 1.4, 0.3
        thetas = [math.pi / 2, 0.6, -0.5, math.pi] if thetas is None else thetas
        theta = thetas[env.choice('theta', len(thetas))]
        roi = RectangularROI(1.0 + dx - hw, 1.0 + dx + hw, 1.0 + dy - hh, 1.0 + dy + hh, theta=theta)
        ct, st_ = sn.trig(theta)
        band = 1e-3

        def classify(px, py):
            ux, uy = px - 1.0 - dx, py - 1.0 - dy
            a, b = ct * ux + st_ * uy, -st_ * ux + ct * uy                        # point rotated back into the rectangle frame
            ins = (a >= -hw + band) & (a <= hw - band) & (b >= -hh + band) & (b <= hh - band)
            out = (a <= -hw - band) | (a >= hw + band) | (b <= -hh - band) | (b >= hh + band)
            return ins, out
    elif shape == 'annulus':
        # (the class accepts only plain numbers as parameters: centre and radii are enumerated, the data values stay symbolic)
        from glue.core.roi import CircularAnnulusROI
        xc, yc = [(1.0, 1.0), (0.625, 1.25), (1.5, 0.25)][env.choice('centre', 3)]
        rin, rout = [(0.5, 1.5), (0.75, 1.125)][env.choice('radii', 2)]
        roi = CircularAnnulusROI(xc, yc, rin, rout)
        f = math.cos(math.pi / NPOLY)

        def d_ge(px, py, R2):
            # (px-xc)^2 + (py-yc)^2 >= R2 with one coordinate a concrete category position: linear in the other one
            c, v = (R2 - float(px - xc) ** 2, py - yc) if xkind == 'cat' else (R2 - float(py - yc) ** 2, px - xc)
            if c <= 0:
                return finite(v)
            return (v >= math.sqrt(c)) | (v <= -math.sqrt(c))

        def d_le(px, py, R2):
            c, v = (R2 - float(px - xc) ** 2, py - yc) if xkind == 'cat' else (R2 - float(py - yc) ** 2, px - xc)
            if c < 0:
                return ~finite(v)
            return (v <= math.sqrt(c)) & (v >= -math.sqrt(c))

        def classify(px, py):
            # polygon approximation: both circles are replaced by inscribed polygons
            # (the polygon of an annulus has a zero-width seam joining the two circles at angle 0: like every polygon edge it
            # is a boundary, and positions within the band of it are not judged)
            seam = (py >= yc - 1e-6) & (py <= yc + 1e-6) & (px >= xc)
            ins = d_ge(px, py, rin * rin * (1 + 1e-3)) & d_le(px, py, (rout * f) ** 2 * (1 - 1e-3)) & ~seam
            return ins, d_le(px, py, (rin * f) ** 2 * (1 - 1e-3)) | d_ge(px, py, rout * rout * (1 + 1e-3))
    elif shape == 'circle':
        r = 1.25
        roi = CircularROI(1.0 + dx, 1.0 + dy, r)

        def classify(px, py):
            q = (px - 1.0 - dx) * (px - 1.0 - dx) + (py - 1.0 - dy) * (py - 1.0 - dy)
            # the categorical code path works on the polygon approximation (NPOLY vertices when clamped): band = sagitta
            f = math.cos(math.pi / NPOLY) if (xkind, ykind) != ('num', 'num') else 1.0
            return q <= (r * f) ** 2 * (1 - 1e-3), q >= r * r * (1 + 1e-3)
    else:
        rx, ry = 1.5, 0.75
        thetas = ([0.0, 2.0, -0.5, 3.5] if (xkind, ykind) == ('num', 'num') else [0.0]) if thetas is None else thetas
        theta = thetas[env.choice('theta', len(thetas))]
        roi = EllipticalROI(1.0 + dx, 1.0 + dy, rx, ry, theta=theta)
        from vtools import symnp as sn
        ct, st_ = sn.trig(theta)

        def classify(px, py):
            ux, uy = px - 1.0 - dx, py - 1.0 - dy
            a, b = (ct * ux + st_ * uy) / rx, (-st_ * ux + ct * uy) / ry          # point rotated back into the ellipse frame
            q = a * a + b * b
            f = math.cos(math.pi / NPOLY) if (xkind, ykind) != ('num', 'num') else 1.0
            return q <= f * f * (1 - 1e-3), q >= (1 + 1e-3)
    st = roi_to_subset_state(roi, x_att=d.id['x'], y_att=d.id['y'], x_categories=xcats, y_categories=ycats)
    got = d.get_mask(st)
    env.true(tuple(np.shape(got)) == (nrows,), 'mask shape')
    conds = []
    for i in range(nrows):
        x, y = xpos[i], ypos[i]
        ins, out = classify(x, y)
        nanrow = ~(finite(x) & finite(y))
        conds.append((~(ins & ~nanrow)) | got[i])
        conds.append((~(out | nanrow)) | (~got[i]))
    env.true_all(conds, '%s on axes (%s, %s): selected <=> plotted position inside (band excepted)' % (shape, xkind, ykind))


NPOLY = 8


def _numeric_conic(env, shape, nrows, dx, dy):
    """circle / rotated ellipse on two numeric axes: the data points are parametrised in the region's own frame
    (a, b) and mapped forward, so that the translation cancels and the queries stay polynomial in (a, b) only"""
    from glue.core import Data
    from glue.core.component import Component
    from glue.core.subset import roi_to_subset_state
    from glue.core.roi import CircularROI, EllipticalROI
    from vtools import symnp as sn
    if shape == 'circle':
        rx = ry = 1.25
        theta = 0.0
        roi = CircularROI(1.0 + dx, 1.0 + dy, rx)
    else:
        rx, ry = 1.5, 0.75
        thetas = [0.0, 2.0, -0.5, 3.5]
        theta = thetas[env.choice('theta', len(thetas))]
        roi = EllipticalROI(1.0 + dx, 1.0 + dy, rx, ry, theta=theta)
    ct, st_ = sn.trig(theta)
    A = [env.real('a%d' % i, lo=-3, hi=3) for i in range(nrows)]
    B = [env.real('b%d' % i, lo=-3, hi=3) for i in range(nrows)]
    xs = [1.0 + dx + ct * (a * rx) - st_ * (b * ry) for a, b in zip(A, B)]
    ys = [1.0 + dy + st_ * (a * rx) + ct * (b * ry) for a, b in zip(A, B)]
    if env.symbolic:
        mk = lambda v: sn.wrap(np.array(v, dtype=object))
    else:
        mk = lambda v: np.array(v, dtype=float)
    d = Data(label='d')
    d.add_component(Component(mk(xs)), 'x')
    d.add_component(Component(mk(ys)), 'y')
    st = roi_to_subset_state(roi, x_att=d.id['x'], y_att=d.id['y'])
    got = d.get_mask(st)
    conds = []
    for i in range(nrows):
        q = A[i] * A[i] + B[i] * B[i]
        conds.append((~(q <= 1 - 1e-4)) | got[i])
        conds.append((~(q >= 1 + 1e-4)) | (~got[i]))
    env.true_all(conds, '%s (theta=%r) on two numeric axes: selected <=> inside (band excepted)' % (shape, theta))



def _plain_constant_results():
    """points_inside_poly on purely concrete input returns constants inside the shim (its work arrays are created by the
    patched constructors); callers index concrete arrays with the result, so constants are handed back as plain booleans"""
    import glue.utils.geometry as geo
    from vtools import symnp as sn
    f = geo.points_inside_poly
    if getattr(f, '_verif_plain', False):
        return

    def points_inside_poly(x, y, vx, vy):
        return sn.plain_if_constant(f(x, y, vx, vy))
    points_inside_poly._verif_plain = True
    geo.points_inside_poly = points_inside_poly


def _clamp_linspace():
    """the 100-vertex polygon approximation of circles/ellipses is reduced to NPOLY+1 vertices while exploring
    (the name np.linspace in glue.core.roi is wrapped; function bodies untouched)"""
    import glue.core.roi as groi
    from vtools import symnp as sn
    P = groi.np
    if getattr(type(P), '_verif_linspace', False):
        return
    real = type(P).__dict__.get('linspace')

    def linspace(self, start, stop, num=50, **kw):
        if sn.active() and num == 100:
            num = NPOLY + 1
        return np.linspace(start, stop, num=num, **kw)
    type(P).linspace = linspace
    type(P)._verif_linspace = True


def harnesses(tier):
    hs = []
    nrows = 3
    for k, (xk, yk) in enumerate(KINDS):
        hs.append(Harness('ranges+rect axes=(%s,%s)' % (xk, yk), body_ranges,
                          params=dict(kinds=k, nrows=nrows, xperms=[0, 3, 5] if (xk, yk) == ('cat', 'cat') and tier == 'quick' else None,
                                      yperms=[1, 4] if (xk, yk) == ('cat', 'cat') and tier == 'quick' else None), validate=25, weight=5,
                          wall_s=1800, max_paths=500000,
                          bounds=dict(axes=(xk, yk), rows=nrows, categories=3, category_orders='all 6', regions=['x range', 'y range', 'RangeROI', 'rectangle'],
                                      bounds='symbolic')))
    shapes = ['triangle', 'box', 'L', 'circle', 'ellipse', 'rotrect', 'annulus']
    for k, (xk, yk) in enumerate(KINDS):
        for sh in shapes:
            if tier == 'quick' and (sh == 'box' or (sh in ('circle', 'ellipse') and xk != yk)):
                continue          # (mixed axes with the 9-gon of a circle: several minutes of solver time -> thorough tier)
            if sh == 'annulus' and xk == yk:
                continue          # (numeric axes: the region itself is evaluated, covered by C08; two categorical axes: nothing symbolic)
            th = None
            if sh == 'rotrect' and tier == 'quick' and (xk, yk) != ('num', 'num'):
                th = [math.pi / 2, 0.6]
            hs.append(Harness('%s axes=(%s,%s)' % (sh, xk, yk), body_polylike,
                              params=dict(kinds=k, shape=sh, nrows=nrows if sh in SHAPES else 2, thetas=th,
                                          xperms=[0, 3, 5] if tier == 'quick' else None, yperms=[1, 4] if tier == 'quick' else None),
                              validate=15, weight=8 if sh in ('circle', 'ellipse') else 5, wall_s=1800, max_paths=500000,
                              bounds=dict(axes=(xk, yk), region=sh, translation='symbolic in [-1.5,1.5]^2', rows=nrows, category_orders='all 6'),
                              assumptions=['S-path stub for matplotlib Path.contains_points', 'circle/ellipse polygon approximation reduced from '
                                           '100 to %d vertices while exploring (band widened to the sagitta)' % NPOLY]))
    return hs
