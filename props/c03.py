"""C03 - Linked attributes are reachable exactly through links and carry composed values."""
import itertools
import numpy as np

from vtools.runner import Harness
from .common import mk_data, kf_active

ID = 'C03'
LEVEL = 'other'
EXPLANATION = ('link graphs over three datasets (one-way, two-way, two-input, identity, cyclic, shortcut and derived-source '
               'links, chosen by the solver) are registered on a real DataCollection holding symbolic values; for every dataset '
               'and attribute the set of readable attributes is compared with an independently computed closure and the value '
               'read is proved (z3) equal to the composition of the link functions along a minimum-depth chain; selections on '
               'linked attributes select by the derived values and are incompatible elsewhere; after one further mutation (link '
               'removed / added / replaced, component or dataset removed, batched updates) the same holds and no reference to '
               'removed objects remains')

# pairwise "independent" affine maps so that the chain that was used is visible in the value term
F = {
    'L1': (lambda x: x * 2 + 1, lambda y: (y - 1) / 2),
    'L2': (lambda x: x * 3 - 2, lambda y: (y + 2) / 3),
    'L3': (lambda x: x * 5 + 7, None),
    'L4': (lambda a, b: a * 7 + b * 11, None),
    'L6': (lambda x: x * 13 - 4, None),
    'L1b': (lambda x: x * 17 + 3, None),
}


def _dbl(x):
    return x * 2


def _half(x):
    return x / 2


class Graph:
    """independent model of the link graph: list of (name, inputs, output, function)"""

    def __init__(self):
        self.links = []

    def add(self, name, inputs, output, fn):
        self.links.append((name, tuple(inputs), output, fn))

    def remove(self, name):
        self.links = [l for l in self.links if not l[0].startswith(name)]

    def drop_touching(self, keys):
        self.links = [l for l in self.links if not (set(l[1]) | {l[2]}) & set(keys)]

    def closure(self, own):
        """own: dict key -> value (attributes the dataset holds itself: depth 0).
        Returns dict key -> (min depth, list of possible value terms at that depth)."""
        depth = {k: 0 for k in own}
        vals = {k: [v] for k, v in own.items()}
        changed = True
        while changed:
            changed = False
            for name, ins, out, fn in self.links:
                if not all(i in depth for i in ins):
                    continue
                cost = (max(depth[i] for i in ins) + 1) if ins else 1
                if out in own:
                    continue
                if out not in depth or cost < depth[out]:
                    depth[out] = cost
                    vals[out] = None
                    changed = True
        # values: all compositions along minimum-depth chains
        order = sorted(depth, key=lambda k: depth[k])
        for k in order:
            if depth[k] == 0:
                continue
            alts = []
            for name, ins, out, fn in self.links:
                if out != k or not all(i in depth for i in ins):
                    continue
                cost = (max(depth[i] for i in ins) + 1) if ins else 1
                if cost != depth[k]:
                    continue
                for combo in itertools.product(*[vals[i] for i in ins]):
                    alts.append(fn(*combo))
            vals[k] = alts
        return depth, vals


def one_of(env, got, alts, label):
    """got equals one of the alternative terms"""
    if len(alts) == 1:
        env.same(got, alts[0], label)
        return
    if env.symbolic:
        from vtools import symnp as sn, symcore as sc
        t = sc.Or_(*[sn.same_arrays(np.asarray(got), np.asarray(a)) for a in alts])
        env.true(sc.SymBool(t), label)
    else:
        ok = any(np.array_equal(np.asarray(got, dtype=float), np.asarray(a, dtype=float), equal_nan=True) for a in alts)
        env.true(ok, label)


def body(env, mutation=None, l1_kinds=(0, 1, 2), internal=(0,)):
    from glue.core import DataCollection
    from glue.core.component_link import ComponentLink
    from glue.core.link_helpers import LinkSame
    from glue.core.exceptions import IncompatibleAttribute
    n = 2
    a0, b0 = env.reals('a0', (n,)), env.reals('b0', (n,))
    a1 = env.reals('a1', (n,))
    a2 = env.reals('a2', (n,))
    D0 = mk_data('D0', a0=a0, b0=b0)
    D1 = mk_data('D1', a1=a1)
    int2 = internal[env.choice('internal', len(internal))]  # 0: s1 = a1 * 2 (one-way); 1: defined with an inverse (two-way, inside D1)
    if int2:
        from glue.core.component_id import ComponentID
        D1.add_component_link(ComponentLink([D1.id['a1']], ComponentID('s1', parent=D1), using=_dbl, inverse=_half))
    else:
        D1.add_component_link(D1.id['a1'] * 2, 's1')       # derived attribute of D1
    D2 = mk_data('D2', a2=a2)
    dc = DataCollection([D0, D1, D2])
    ds = {'D0': D0, 'D1': D1, 'D2': D2}
    cid = {'a0': D0.id['a0'], 'b0': D0.id['b0'], 'a1': D1.id['a1'], 's1': D1.id['s1'], 'a2': D2.id['a2']}
    own_vals = {'D0': {'a0': a0, 'b0': b0}, 'D1': {'a1': a1}, 'D2': {'a2': a2}}
    g = Graph()
    g.add('int:s1', ['a1'], 's1', lambda x: x * 2)          # D1's internal link is part of the web of links
    if int2:
        g.add('int:s1:inv', ['s1'], 'a1', lambda x: x / 2)
    real = {}

    def mk(name, ins, out, two_way=False):
        f, finv = F[name]
        link = ComponentLink([cid[i] for i in ins], cid[out], using=f, inverse=finv if two_way else None)
        real[name] = link
        g.add(name, ins, out, f)
        if two_way:
            g.add(name + ':inv', [out], ins[0], finv)
        return link

    links = []
    k1 = l1_kinds[env.choice('L1', len(l1_kinds))]          # 0 absent, 1 one-way, 2 two-way
    if k1:
        links.append(mk('L1', ['a0'], 'a1', two_way=(k1 == 2)))
    k2 = env.choice('L2', 5)                                  # absent / a1->a2 one-way / two-way / from the derived s1 / s1<->a2 two-way
    if k2 == 1:
        links.append(mk('L2', ['a1'], 'a2'))
    elif k2 == 2:
        links.append(mk('L2', ['a1'], 'a2', two_way=True))
    elif k2 == 3:
        links.append(mk('L2', ['s1'], 'a2'))
    elif k2 == 4:
        links.append(mk('L2', ['s1'], 'a2', two_way=True))
    if env.choice('L3', 2):
        links.append(mk('L3', ['a0'], 'a2'))                  # shortcut competing with the chain L1;L2
    if env.choice('L4', 2):
        links.append(mk('L4', ['a0', 'b0'], 'a1'))            # two-input link
    if env.choice('L5', 2):
        l5 = LinkSame(cid['a2'], cid['a0'])                   # identity, two-way: closes a cycle
        real['L5'] = l5
        g.add('L5', ['a2'], 'a0', lambda x: x)
        g.add('L5:inv', ['a0'], 'a2', lambda x: x)
        links.append(l5)
    batched = env.choice('batched_setup', 2)
    if batched:
        with dc.delay_link_manager_update():
            for l in links:
                dc.add_link(l)
    else:
        for l in links:
            dc.add_link(l)

    removed_data = []
    removed_keys = []

    def check(tag):
        t = env.real('thr_' + tag.replace(' ', '_'), lo=-50, hi=50)
        for dn, D in ds.items():
            if D in removed_data:
                continue
            own = dict(own_vals[dn])
            if dn == 'D1' and 's1' not in removed_keys:
                pass
            depth, vals = g.closure(own)
            for key, c in cid.items():
                if key in removed_keys:
                    continue
                reachable = key in depth
                own_attr = key in own or (dn == 'D1' and key == 's1')
                try:
                    got = D[c]
                    readable = True
                except IncompatibleAttribute:
                    readable = False
                env.true(readable == reachable, '%s: %s %s read %s (chain exists: %s)' % (tag, dn, 'can' if readable else 'cannot', key, reachable))
                if readable and reachable:
                    one_of(env, got, vals[key], '%s: value of %s read from %s is the composition along a shortest chain' % (tag, key, dn))
                    if not own_attr:
                        env.true(c in D.externally_derivable_components, '%s: %s listed as externally derivable for %s' % (tag, key, dn))
                    # a selection on the attribute selects by the derived values
                    m = D.get_mask(c > t)
                    one_of(env, m, [v > t for v in vals[key]], '%s: selection on %s evaluated on %s' % (tag, key, dn))
                elif not readable:
                    try:
                        D.get_mask(c > t)
                        env.true(False, '%s: selection on unreachable %s must be incompatible on %s' % (tag, key, dn))
                    except IncompatibleAttribute:
                        pass
                    env.true(c not in D.externally_derivable_components, '%s: unreachable %s not listed for %s' % (tag, key, dn))
            # no reference to removed objects
            for c2 in D.externally_derivable_components:
                env.true(c2.parent not in removed_data, '%s: %s keeps an attribute of a removed dataset' % (tag, dn))
                env.true(not any(c2 is cid[k] for k in removed_keys), '%s: %s keeps a removed attribute' % (tag, dn))
            for other in D.pixel_aligned_data:
                env.true(other not in removed_data, '%s: %s pixel-aligned with a removed dataset' % (tag, dn))
        from glue.core.link_helpers import LinkCollection
        flat = []
        for l in dc.external_links:
            flat += list(l) if isinstance(l, LinkCollection) else [l]
        for l in flat:
            for c2 in l.get_from_ids() + [l.get_to_id()]:
                env.true(c2.parent not in removed_data and not any(c2 is cid[k] for k in removed_keys),
                         '%s: a registered link still refers to a removed object' % tag)

    check('initial')
    muts = [env.choice('mutation', 10)] if mutation is None else (list(mutation) if isinstance(mutation, (tuple, list)) else [mutation])
    registered = [n_ for n_ in ('L1', 'L2', 'L3', 'L4', 'L5') if n_ in real]
    done = []
    for step, mut in enumerate(muts):
        if mut == 0:
            continue
        d1_gone = D1 in removed_data
        if mut == 1:                  # remove one registered link
            if not registered:
                env.assume(False)
            nm = registered[env.choice('which%d' % step, len(registered))]
            dc.remove_link(real[nm])
            g.remove(nm)
            registered.remove(nm)
        elif mut == 2:                # add a link
            if 'L6' in real or d1_gone or 'b0' in removed_keys:
                env.assume(False)
            dc.add_link(mk('L6', ['a1'], 'b0'))
            registered.append('L6')
        elif mut == 3:                # remove a component that links depend on
            if 'b0' in removed_keys:
                env.assume(False)
            D0.remove_component(cid['b0'])
            removed_keys.append('b0')
            own_vals['D0'].pop('b0')
            for nm in list(registered):
                if any(('b0' in l[1] or l[2] == 'b0') for l in g.links if l[0].split(':')[0] == nm):
                    registered.remove(nm)
            g.drop_touching(['b0'])
        elif mut == 4:                # remove a dataset
            if d1_gone:
                env.assume(False)
            dc.remove(D1)
            removed_data.append(D1)
            for k in ('a1', 's1'):
                if k not in removed_keys:
                    removed_keys.append(k)
            for nm in list(registered):
                if any((set(l[1]) | {l[2]}) & {'a1', 's1'} for l in g.links if l[0].split(':')[0] == nm):
                    registered.remove(nm)
            g.drop_touching(['a1', 's1'])
        elif mut in (5, 6):           # replace L1 by another link with the same endpoints: in one update / in a delayed block
            if 'L1' not in registered or 'L1b' in real or d1_gone:
                env.assume(False)
            if mut == 5:
                new = mk('L1b', ['a0'], 'a1')
                keep = [real[n_] for n_ in registered if n_ != 'L1']
                dc.set_links(keep + [new])
            else:
                with dc.delay_link_manager_update():
                    dc.remove_link(real['L1'])
                    dc.add_link(mk('L1b', ['a0'], 'a1'))
            g.remove('L1')
            g.links = [l for l in g.links if l[0] != 'L1b'] + [('L1b', ('a0',), 'a1', F['L1b'][0])]
            registered.remove('L1')
            registered.append('L1b')
        elif mut == 7:                # remove the derived attribute that a link starts from
            if d1_gone or 's1' in removed_keys:
                env.assume(False)
            D1.remove_component(cid['s1'])
            removed_keys.append('s1')
            for nm in list(registered):
                if any((set(l[1]) | {l[2]}) & {'s1'} for l in g.links if l[0].split(':')[0] == nm):
                    registered.remove(nm)
            g.drop_touching(['s1'])
        elif mut == 9:                # remove the stored attribute a derived attribute (that links may start from) is computed from
            if d1_gone or 'a1' in removed_keys:
                env.assume(False)
            D1.remove_component(cid['a1'])
            for k in ('a1', 's1'):
                if k not in removed_keys:
                    removed_keys.append(k)
            own_vals['D1'].pop('a1')
            for nm in list(registered):
                if any((set(l[1]) | {l[2]}) & {'a1', 's1'} for l in g.links if l[0].split(':')[0] == nm):
                    registered.remove(nm)
            g.drop_touching(['a1', 's1'])
        elif mut == 8:                # remove a dataset, then add it back
            dc.remove(D2)
            for nm in list(registered):
                if any((set(l[1]) | {l[2]}) & {'a2'} for l in g.links if l[0].split(':')[0] == nm):
                    registered.remove(nm)
            g.drop_touching(['a2'])
            dc.append(D2)
        done.append(mut)
        check('after mutation%s %s' % ('s' if len(done) > 1 else '', '+'.join(str(m) for m in done)))


def harnesses(tier):
    hs = []
    for mut in range(10):
        for k1 in (0, 1, 2):
            if mut in (5, 6) and k1 == 0:
                continue          # nothing to replace
            hs.append(Harness('mutation=%d L1=%d' % (mut, k1), body, params=dict(mutation=mut, l1_kinds=(k1,), internal=(0, 1)), validate=10, weight=4,
                              max_paths=500000, wall_s=1800,
                              bounds=dict(datasets=3, rows=2, link_kinds=['one-way', 'two-way', 'two-input', 'identity', 'from derived attribute', 'two-way derived attribute inside a dataset'],
                                          graphs='all combinations of L1..L5 (L1 fixed per harness)', mutation=mut)))
    if tier == 'thorough':
        # every ordered pair of (different) mutations, checked after each step
        for m1 in range(1, 10):
            for m2 in range(1, 10):
                if (m1 == m2 and m1 != 1) or (m1, m2) in ((3, 2), (4, 2), (4, 5), (4, 6), (4, 7), (4, 9), (5, 6), (6, 5), (9, 2), (9, 5), (9, 6), (9, 7)):
                    continue          # second step not applicable after the first (e.g. its endpoints are gone)
                hs.append(Harness('mutations=%d,%d' % (m1, m2), body, params=dict(mutation=(m1, m2), l1_kinds=(0, 1, 2)), validate=6, weight=6,
                                  max_paths=500000, wall_s=3000,
                                  bounds=dict(datasets=3, rows=2, graphs='all combinations of L1..L5', mutations=[m1, m2])))
    return hs
