"""A small 'world' of datasets, subset groups, session and command stack driven by solver-chosen operations
(shared by C06 and C13)."""
import operator
import numpy as np

from .common import mk_data, kf_active

NDATA = 3


def make_xgreater(t):
    """an elementary selection every dataset with an attribute labelled 'x' can evaluate: x > t"""
    from glue.core.subset import SubsetState

    class XGreater(SubsetState):
        def __init__(self, t):
            self._verif_t = t

        @property
        def attributes(self):
            return ()

        def to_mask(self, data, view=None):
            cid = [c for c in data.components if c.label.startswith('x')][0]
            return data[cid, view] > self._verif_t

        def copy(self):
            return XGreater(self._verif_t)
    return XGreater(t)


class World:
    def __init__(self, env, initial=0, nrows=2):
        from glue.core.session import Session
        from glue.core.data_collection import DataCollection
        self.env = env
        self.x = [env.reals('x%d' % i, (nrows,)) for i in range(NDATA)]
        self.data = [mk_data('d%d' % i, x=self.x[i]) for i in range(NDATA)]
        self.dc = DataCollection()
        self.session = Session(data_collection=self.dc)
        self.stack = self.session.command_stack
        self.mode = self.session.edit_subset_mode
        self.nthr = 0
        self.removed_groups = []
        self.all_groups = []
        self.trace = []
        # initial states (reached through the public API)
        self.dc.append(self.data[0])
        if initial == 3:
            self.new_group()                    # a single dataset carrying one group
        elif initial >= 1:
            self.dc.append(self.data[1])
            self.new_group()
        if initial == 2:
            self.new_group()
            self.dc.remove(self.data[1])

    # ---- helpers
    def new_threshold(self):
        t = self.env.real('t%d' % self.nthr, lo=-4, hi=4)
        self.nthr += 1
        return t

    def new_state(self):
        """a selection every dataset can evaluate: x > t with a fresh symbolic threshold (compared through the shared
        attribute label 'x' by building one state per call on dataset 0's id and linking is avoided: each dataset has its own
        'x', so the state refers to the attribute by *name*)"""
        t = self.new_threshold()
        return make_xgreater(t)

    def mask_of_state(self, st, i):
        """definition of the mask of state st on dataset i (follows composite structure built by the edit modes)"""
        from glue.core import subset as ss
        if getattr(st, '_verif_t', None) is not None:
            return self.x[i] > st._verif_t
        if isinstance(st, ss.InvertState):
            return ~self.mask_of_state(st.state1, i)
        if isinstance(st, ss.CompositeSubsetState):
            return st.op(self.mask_of_state(st.state1, i), self.mask_of_state(st.state2, i))
        if type(st) is ss.SubsetState:
            return np.zeros(self.x[i].shape, dtype=bool)
        if isinstance(st, ss.RangeSubsetState):
            return (self.x[i] >= st.lo) & (self.x[i] <= st.hi)
        raise TypeError(type(st))

    def new_group(self):
        g = self.dc.new_subset_group(subset_state=self.new_state())
        self.all_groups.append(g)
        return g

    def live_groups(self):
        return list(self.dc.subset_groups)

    # ---- invariant of C06
    def check_invariant(self, tag):
        env = self.env
        from glue.core.subset_group import GroupedSubset
        groups = self.live_groups()
        in_dc = [d for d in self.data if d in self.dc._data] + [d for d in self.dc._data if d not in self.data]
        ok = True
        msgs = []
        for d in self.dc._data:
            subs = list(d.subsets)
            for g in groups:
                n = sum(1 for s in subs if getattr(s, 'group', None) is g)
                if n != 1:
                    ok = False
                    msgs.append('%s has %d subsets for group %r' % (d.label, n, g.label))
            extra = [s for s in subs if not isinstance(s, GroupedSubset) or s.group not in groups]
            if extra:
                ok = False
                msgs.append('%s holds %d subsets that belong to no live group' % (d.label, len(extra)))
        for g in groups:
            want = sorted(id(s) for d in self.dc._data for s in d.subsets if getattr(s, 'group', None) is g)
            have = sorted(id(s) for s in g.subsets)
            if want != have:
                ok = False
                msgs.append('group %r lists %d subsets, datasets hold %d' % (g.label, len(have), len(want)))
            for s in g.subsets:
                if s.subset_state is not g.subset_state or s.label != g.label or s.style is not g.style:
                    ok = False
                    msgs.append('member of %r does not share state/label/style' % g.label)
        for d in self.data:
            if d not in self.dc._data:
                live = [s for s in d.subsets if any(s in g.subsets for g in groups)]
                if live:
                    ok = False
                    msgs.append('removed dataset %s is still listed by a live group' % d.label)
        for g in self.removed_groups:
            if g in groups:
                continue
            held = [d.label for d in self.dc._data for s in d.subsets if getattr(s, 'group', None) is g]
            if held:
                ok = False
                msgs.append('removed group %r still has subsets in %s' % (g.label, held))
        env.true(ok, '%s: %s | trace %s' % (tag, '; '.join(msgs) or 'invariant', self.trace))
        # all members of a group select exactly what the group's selection defines on their dataset
        if ok:
            for g in groups:
                for s in g.subsets:
                    i = self.data.index(s.data) if s.data in self.data else None
                    if i is None:
                        continue
                    env.same(s.to_mask(), self.mask_of_state(g.subset_state, i), '%s: member of %r on %s selects the group selection'
                             % (tag, g.label, s.data.label))
        return ok

    # ---- snapshot for C13
    def snapshot(self):
        groups = self.live_groups()
        snap = dict(
            data=tuple(d.label for d in self.dc._data),
            groups=tuple((g.label, g.style.color, g.style.alpha) for g in groups),
            edit=tuple(groups.index(g) if g in groups else 'dead' for g in (self.mode.edit_subset or [])),
            per_data=tuple(tuple(sorted(groups.index(s.group) if getattr(s, 'group', None) in groups else -1 for s in d.subsets))
                           for d in self.dc._data),
            masks=[[self.mask_of_state(g.subset_state, self.data.index(d)) for d in self.dc._data if d in self.data] for g in groups],
            real_masks=None,
        )
        return snap

    def real_masks(self):
        out = []
        for g in self.live_groups():
            row = []
            for d in self.dc._data:
                ss_ = [s for s in d.subsets if getattr(s, 'group', None) is g]
                row.append(ss_[0].to_mask() if ss_ else None)
            out.append(row)
        return out
