"""C20 - Chunk, slice and broadcast helpers are exact."""
import os
import itertools
import numpy as np

from vtools.runner import Harness, FuncHarness, VERIF

ID = 'C20'
LEVEL = 'other'
EXPLANATION = ('combine_slices / find_chunk_shape: CrossHair (z3) symbolic execution of the real functions under '
               'arithmetic contracts, "Confirmed over all paths" required; iterate_chunks, unbroadcast, '
               'broadcast_arrays_minimal, view_shape, categorical_ndarray: own symbolic executor (symbolic chunk '
               'limit / elements, solver-enumerated shapes, views and letter codes)')

XH_TEMPLATE = '''
from glue.utils.array import combine_slices, find_chunk_shape


class S:
    """duck-typed slice (stub S-slice): CPython's slice.indices for step > 0, in Python"""

    def __init__(self, b, e, s):
        self.start, self.stop, self.step = b, e, s

    def indices(self, n):
        b, e = self.start, self.stop
        if b < 0:
            b = b + n
            if b < 0:
                b = 0
        elif b > n:
            b = n
        if e < 0:
            e = e + n
            if e < 0:
                e = 0
        elif e > n:
            e = n
        return b, e, self.step


def chk_combine(b1: int, e1: int, s1: int, b2: int, e2: int, s2: int, n: int, j: int) -> bool:
    """
    pre: 0 <= n <= {N}
    pre: 0 <= b1 <= {N1} and 0 <= e1 <= {N1} and 1 <= s1 <= {S}
    pre: 0 <= b2 <= {N1} and 0 <= e2 <= {N1} and 1 <= s2 <= {S}
    pre: 0 <= j <= {N}
    post: _
    """
    sl1 = S(b1, e1, s1)
    sl2 = S(b2, e2, s2)
    r = combine_slices(sl1, sl2, n)
    B1, E1, _ = sl1.indices(n)
    B2, E2, _ = sl2.indices(n)
    lenview = 0 if E1 <= B1 else (E1 - B1 + s1 - 1) // s1
    if j >= lenview:
        return True   # j is not a position of the view
    v = B1 + j * s1
    want = (B2 <= v < E2) and (v - B2) % s2 == 0
    rb, re_, rs = r.start, r.stop, r.step
    if rb < 0 or re_ < 0 or rs < 1:
        return False
    got = (rb <= j < re_) and (j - rb) % rs == 0
    return got == want


def chk_combine_neg(b1: int, e1: int, s1: int, b2: int, e2: int, s2: int, n: int, j: int) -> bool:
    """
    pre: 0 <= n <= {M}
    pre: -{M1} <= b1 <= {M1} and -{M1} <= e1 <= {M1} and 1 <= s1 <= {SM}
    pre: -{M1} <= b2 <= {M1} and -{M1} <= e2 <= {M1} and 1 <= s2 <= {SM}
    pre: 0 <= j <= {M}
    post: _
    """
    sl1 = S(b1, e1, s1)
    sl2 = S(b2, e2, s2)
    r = combine_slices(sl1, sl2, n)
    B1, E1, _ = sl1.indices(n)
    B2, E2, _ = sl2.indices(n)
    lenview = 0 if E1 <= B1 else (E1 - B1 + s1 - 1) // s1
    if j >= lenview:
        return True   # j is not a position of the view
    v = B1 + j * s1
    want = (B2 <= v < E2) and (v - B2) % s2 == 0
    rb, re_, rs = r.start, r.stop, r.step
    if rb < 0 or re_ < 0 or rs < 1:
        return False
    got = (rb <= j < re_) and (j - rb) % rs == 0
    return got == want


def chk_chunk3(a: int, b: int, c: int, nmax: int) -> bool:
    """
    pre: 1 <= a <= {C} and 1 <= b <= {C} and 1 <= c <= {C} and 1 <= nmax <= {CM}
    post: _
    """
    cs = find_chunk_shape((a, b, c), nmax)
    return len(cs) == 3 and cs[0] * cs[1] * cs[2] <= nmax and all(1 <= x <= y for x, y in zip(cs, (a, b, c)))


def chk_chunk2(a: int, b: int, nmax: int) -> bool:
    """
    pre: 1 <= a <= {C} and 1 <= b <= {C} and 1 <= nmax <= {CM}
    post: _
    """
    cs = find_chunk_shape((a, b), nmax)
    return len(cs) == 2 and cs[0] * cs[1] <= nmax and 1 <= cs[0] <= a and 1 <= cs[1] <= b


def chk_chunk4(a: int, b: int, c: int, d: int, nmax: int) -> bool:
    """
    pre: 1 <= a <= {C4} and 1 <= b <= {C4} and 1 <= c <= {C4} and 1 <= d <= {C4} and 1 <= nmax <= {CM}
    post: _
    """
    cs = find_chunk_shape((a, b, c, d), nmax)
    return len(cs) == 4 and cs[0] * cs[1] * cs[2] * cs[3] <= nmax and all(1 <= x <= y for x, y in zip(cs, (a, b, c, d)))
'''

XH_PARAMS = {
    'quick': dict(N=8, N1=9, S=3, M=4, M1=5, SM=2, C=12, C4=4, CM=2000, timeout=60),
    'thorough': dict(N=12, N1=13, S=4, M=3, M1=4, SM=2, C=50, C4=8, CM=200000, timeout=1500),
}
XH_FUNCS_QUICK = ['chk_chunk3', 'chk_chunk2', 'chk_chunk4']
XH_FUNCS_THOROUGH = ['chk_combine', 'chk_combine_neg', 'chk_chunk3', 'chk_chunk2', 'chk_chunk4']


def _gen_file(tier):
    d = os.path.join(VERIF, '.gen')
    os.makedirs(d, exist_ok=True)
    p = dict(XH_PARAMS[tier])
    path = os.path.join(d, 'c20_xh_%s.py' % tier)
    src = XH_TEMPLATE
    for k, v in p.items():
        src = src.replace('{%s}' % k, str(v))
    with open(path, 'w') as f:
        f.write(src)
    return path


def _validate_s_slice(ns):
    """stub validation: S.indices == slice.indices exhaustively on a small range"""
    S = ns['S']
    for n in range(0, 7):
        for b in range(-8, 9):
            for e in range(-8, 9):
                for s in (1, 2, 3):
                    if tuple(S(b, e, s).indices(n)) != slice(b, e, s).indices(n):
                        return 'S(%d,%d,%d).indices(%d)' % (b, e, s, n)
    return None


def xhair_harness(tier):
    def fn(res, funcs):
        from vtools import xhair
        path = _gen_file(tier)
        ns = {}
        exec(compile(open(path).read(), path, 'exec'), ns)
        bad = _validate_s_slice(ns)
        if bad:
            res['inconclusive'].append('S-slice stub disagrees with slice.indices at %s' % bad)
            return
        p = XH_PARAMS[tier]
        results = xhair.run_file(path, XH_FUNCS_QUICK if tier == 'quick' else XH_FUNCS_THOROUGH, p['timeout'], procs=5)
        st = res['stats']
        st.update(paths=0, obligations=len(results), discharged=0, queries=0, solver_s=0.0)
        for r in results:
            st['solver_s'] += r['wall_s']
            res['samples'].append({'condition': r['func'], 'verdict': r['verdict'], 'wall_s': r['wall_s']})
            if r['verdict'] == 'confirmed':
                st['discharged'] += 1
                st['paths'] += 1
            elif r['verdict'] == 'counterexample':
                args, kwargs = xhair.parse_cex_args(r['cex']) if r['cex'] else (None, None)
                res['violations'].append(dict(label='%s: %s' % (r['func'], r['detail'][:200]),
                                              witness=dict(xh_func=r['func'], args=args, kwargs=kwargs, tier=tier), script=None))
            else:
                res['inconclusive'].append('%s: %s (%s)' % (r['func'], r['verdict'], r['detail'][-200:].replace('\n', ' ')))
        res['functions'] = ['glue/utils/array.py:combine_slices', 'glue/utils/array.py:find_chunk_shape']
        res['stubs'] = ['S-slice']
    p = XH_PARAMS[tier]
    return FuncHarness('crosshair combine_slices/find_chunk_shape', fn, kind='crosshair', weight=100,
                       bounds=dict(combine_slices=dict(length_max=p['N'], start_stop_range=[0, p['N1']], step_max=p['S']),
                                   combine_slices_negative=dict(length_max=p['M'], start_stop_range=[-p['M1'], p['M1']], step_max=p['SM']),
                                   find_chunk_shape=dict(side_max=p['C'], side_max_4d=p['C4'], n_max_max=p['CM']),
                                   per_condition_timeout_s=p['timeout']),
                       assumptions=['slice.indices replaced by its CPython algorithm in Python (S-slice, validated exhaustively '
                                    'for n<=6, |start|,|stop|<=8, step<=3)', 'None start/stop not exercised (normalised by indices())'])


def replay(blob):
    w = blob.get('witness') or {}
    if 'xh_func' not in w:
        return None
    path = _gen_file(w.get('tier', 'quick'))
    ns = {}
    exec(compile(open(path).read(), path, 'exec'), ns)
    f = ns[w['xh_func']]
    try:
        ok = f(*(w.get('args') or []), **(w.get('kwargs') or {}))
    except Exception as e:
        return True, 'real function raised %s: %s on %s' % (type(e).__name__, e, w)
    if ok:
        return False, 'CrossHair counterexample does not reproduce: %s' % (w,)
    return True, 'contract of %s violated on the real function for %s' % (w['xh_func'], w)


# --------------------------------------------------------------------------- E2 parts

class SSlice:
    """duck-typed slice (stub S-slice): CPython's slice.indices for step > 0, in Python"""

    def __init__(self, b, e, s):
        self.start, self.stop, self.step = b, e, s

    def indices(self, n):
        b, e = self.start, self.stop
        if b < 0:
            b = b + n
            if b < 0:
                b = 0
        elif b > n:
            b = n
        if e < 0:
            e = e + n
            if e < 0:
                e = 0
        elif e > n:
            e = n
        return b, e, self.step


def _sym_range(*a):
    """range() over symbolic ints: the loop condition becomes a solver-decided fork per iteration"""
    from vtools import symcore as sc
    if not any(isinstance(x, sc.Sym) for x in a):
        return range(*a)
    if len(a) == 1:
        b, e, s = 0, a[0], 1
    elif len(a) == 2:
        b, e, s = a[0], a[1], 1
    else:
        b, e, s = a

    def gen():
        i = b
        n = 0
        while i < e:
            yield i
            i = i + s
            n += 1
            if n > 400:
                raise sc.EngineLimit('range unrolling bound')
    return gen()


def body_combine_slices(env, N=12, s1=1, s2=1):
    import glue.utils.array as ua
    if env.symbolic:
        ua.range = _sym_range          # module-global shadowing the builtin; function body untouched
    n = env.int('n', 0, N)
    b1, e1, b2, e2 = [env.int(k, -N - 1, N + 1) for k in ('b1', 'e1', 'b2', 'e2')]
    j = env.int('j', 0, N)
    if env.symbolic:
        sl1, sl2 = SSlice(b1, e1, s1), SSlice(b2, e2, s2)
    else:
        sl1, sl2 = slice(b1, e1, s1), slice(b2, e2, s2)     # replay: the real slice type
    r = ua.combine_slices(sl1, sl2, n)
    B1, E1, _ = sl1.indices(n)
    B2, E2, _ = sl2.indices(n)
    lenview = env.ite(E1 <= B1, 0 * n, (E1 - B1 + s1 - 1) // s1)
    env.assume(j < lenview)
    v = B1 + j * s1
    want = (B2 <= v) & (v < E2) & (((v - B2) % s2) == 0)
    rb, re_, rs = r.start, r.stop, r.step
    rs = int(rs)
    env.true((rb >= 0) & (re_ >= 0) & (rs >= 1), 'result is a valid positive-step slice')
    got = (rb <= j) & (j < re_) & (((j - rb) % rs) == 0)
    env.true(got == want, 'view position selected by the combined slice <=> its element is selected by slice2')



def body_iterate_chunks(env, ndim=2, side_max=3, use_chunk_shape=False):
    from glue.utils.array import iterate_chunks
    shape = tuple(env.choice('side%d' % i, side_max + 1) for i in range(ndim))     # sides 0..side_max
    size = int(np.prod(shape))
    if use_chunk_shape:
        cs = tuple(env.choice('chunk%d' % i, max(shape[i], 1)) + 1 for i in range(ndim))
        env.assume(all(c <= s for c, s in zip(cs, shape)) or size == 0)
        chunks = list(iterate_chunks(shape, chunk_shape=cs))
        limit = int(np.prod(cs))
    else:
        limit = env.int('n_max', 1, size + 2)
        chunks = list(iterate_chunks(shape, n_max=limit))
    count = np.zeros(shape, dtype=int)
    for sl in chunks:
        env.true(len(sl) == ndim, 'one slice per dimension')
        idx = tuple(slice(int(s.start), int(s.stop), None if s.step is None else int(s.step)) for s in sl)
        n_el = 1
        for i, s in enumerate(idx):
            env.true((0 <= s.start) and (s.start < s.stop) and (s.stop <= shape[i]), 'chunk inside the array and non-empty')
            n_el = n_el * (s.stop - s.start)
        env.true(n_el <= limit, 'chunk has at most n_max elements')
        count[idx] += 1
    env.true(bool(np.all(count == 1)), 'every element visited exactly once (shape %s)' % (shape,))
    if size == 0:
        env.true(len(chunks) == 0, 'no chunks for empty shapes')


def _stride_variants(env, base_shape):
    """a broadcast / sliced view of a small symbolic array, chosen by the solver"""
    nd = len(base_shape)
    pattern = [env.choice('bc%d' % i, 2) for i in range(nd)]        # 1: this axis is broadcast (stride 0)
    src_shape = tuple(1 if pattern[i] else base_shape[i] for i in range(nd))
    a = env.reals('a', src_shape, nan=True)
    arr = np.broadcast_to(a, base_shape)
    how = env.choice('how', 4)
    if how == 1:
        arr = arr[..., ::-1] if not env.symbolic else arr[..., ::-1]
    elif how == 2:
        arr = arr.T
    elif how == 3:
        arr = arr[tuple(slice(0, None, 2) if i == 0 else slice(None) for i in range(nd))]
    return arr


def body_unbroadcast(env, base_shape=(2, 3)):
    from glue.utils.array import unbroadcast, broadcast_arrays_minimal
    arr = _stride_variants(env, base_shape)
    u = unbroadcast(arr)
    env.true(u.ndim == arr.ndim, 'unbroadcast keeps ndim')
    for i in range(arr.ndim):
        env.true(u.shape[i] in (1, arr.shape[i]), 'unbroadcast shape entries are 1 or the original')
        if arr.strides[i] == 0 and arr.shape[i] > 0:
            env.true(u.shape[i] == 1, 'broadcast axis collapsed')
    env.same(np.broadcast_to(u, arr.shape), arr, 'broadcast_to(unbroadcast(a), a.shape) == a')
    b = env.reals('b', (arr.shape[-1],), nan=True)
    res = broadcast_arrays_minimal(arr, b)
    full = np.broadcast_arrays(arr, b)
    env.true(len(res) == 2, 'two results')
    for r, f in zip(res, full):
        env.same(np.broadcast_to(r, f.shape), f, 'broadcast_arrays_minimal result broadcasts to the full result')


VIEW_ITEMS = [slice(None), slice(1, None), slice(None, -1), slice(0, None, 2), slice(1, 3), slice(2, 1), 0, -1, 1]


def body_view_shape(env, shape=(3, 4)):
    from glue.utils.array import view_shape
    nd = len(shape)
    form = env.choice('form', 5)
    if form == 0:
        view = None
    elif form == 1:
        view = Ellipsis
    elif form == 2:
        k = env.choice('nitems', nd) + 1
        view = tuple(VIEW_ITEMS[env.choice('item%d' % i, len(VIEW_ITEMS))] for i in range(k))
    elif form == 3:
        view = (np.array([0, shape[0] - 1, 0]),) + ((np.array([1, 0, 1]),) if nd > 1 and env.choice('two', 2) else ())
    else:
        m = np.zeros(shape, dtype=bool)
        m.flat[::2] = True
        view = m
    try:
        want = np.zeros(shape)[view].shape if view is not None else shape
    except IndexError:
        env.assume(False)
        return
    env.true(tuple(view_shape(shape, view)) == tuple(want), 'view_shape(%s, %r)' % (shape, view))


LAYOUTS = ['C', 'F', 'T', 'step', 'rev']


def body_categorical(env, n=4, letters=3, twod=False):
    from glue.utils.array import categorical_ndarray, unique
    from glue.core.component import CategoricalComponent
    alphabet = ['a', 'b', 'c', 'dd'][:letters]
    codes = [env.choice('c%d' % i, letters) for i in range(n)]
    vals = np.array([alphabet[c] for c in codes])
    if twod:
        lay = LAYOUTS[env.choice('layout', len(LAYOUTS))]
        vals = vals.reshape((2, n // 2))
        if lay == 'F':
            vals = np.asfortranarray(vals)
        elif lay == 'T':
            vals = vals.T
        elif lay == 'step':
            vals = np.repeat(vals, 2, axis=1)[:, ::2]
        elif lay == 'rev':
            vals = vals[::-1, ::-1]
    for kind in range(2):
        if kind == 0:
            c = categorical_ndarray(vals)
            cats, cds = c.categories, c.codes
        else:
            comp = CategoricalComponent(vals)
            cats, cds = comp.categories, comp.codes
        env.true(list(cats) == sorted(set(vals.ravel().tolist())), 'categories sorted unique')
        env.true(np.shape(cds) == vals.shape, 'codes have the array shape')
        env.true(bool(np.all(np.asarray(cats)[np.asarray(cds).astype(int)] == vals)), 'categories[codes] == values %s' % vals.tolist())
    u, inv = unique(vals)
    env.true(bool(np.all(u[inv] == vals)) and list(u) == sorted(set(vals.ravel().tolist())), 'unique: U[I] == array')


def harnesses(tier):
    hs = [xhair_harness(tier)]
    N, SM = (12, 3) if tier == 'quick' else (40, 4)
    for s1 in range(1, SM + 1):
        for s2 in range(1, SM + 1):
            hs.append(Harness('combine_slices s1=%d s2=%d' % (s1, s2), body_combine_slices, params=dict(N=N, s1=s1, s2=s2),
                              bounds=dict(length_max=N, start_stop_range=[-N - 1, N + 1], steps=(s1, s2)), validate=200,
                              max_paths=200000, wall_s=3000, weight=50,
                              assumptions=['slice.indices replaced by its CPython algorithm in Python (S-slice); replay uses real slices',
                                           'builtin range shadowed in glue.utils.array by a generator forking per iteration']))
    if tier == 'quick':
        for nd in (1, 2, 3):
            hs.append(Harness('iterate_chunks n_max %dd' % nd, body_iterate_chunks, params=dict(ndim=nd, side_max=3 if nd < 3 else 2),
                              bounds=dict(ndim=nd, side_max=3 if nd < 3 else 2, n_max='symbolic in [1,size+2]')))
        hs.append(Harness('iterate_chunks chunk_shape 2d', body_iterate_chunks, params=dict(ndim=2, side_max=3, use_chunk_shape=True),
                          bounds=dict(ndim=2, side_max=3, chunk_shape='all')))
        hs.append(Harness('unbroadcast (2,3)', body_unbroadcast, params=dict(base_shape=(2, 3)), validate=20,
                          bounds=dict(base_shape=(2, 3), stride_patterns='all broadcast patterns x {plain, reversed, transposed, stepped}')))
        hs.append(Harness('view_shape (3,4)', body_view_shape, params=dict(shape=(3, 4)), bounds=dict(shape=(3, 4), view_items=len(VIEW_ITEMS))))
        hs.append(Harness('categorical 1d n=4', body_categorical, params=dict(n=4, letters=3), bounds=dict(length=4, alphabet=3)))
        hs.append(Harness('categorical 2d n=4', body_categorical, params=dict(n=4, letters=3, twod=True),
                          bounds=dict(shape=(2, 2), alphabet=3, layouts=LAYOUTS)))
    else:
        for nd in (1, 2, 3, 4):
            sm = {1: 6, 2: 4, 3: 3, 4: 2}[nd]
            hs.append(Harness('iterate_chunks n_max %dd' % nd, body_iterate_chunks, params=dict(ndim=nd, side_max=sm),
                              bounds=dict(ndim=nd, side_max=sm, n_max='symbolic in [1,size+2]'), wall_s=1500))
        for nd in (2, 3):
            hs.append(Harness('iterate_chunks chunk_shape %dd' % nd, body_iterate_chunks,
                              params=dict(ndim=nd, side_max=4 if nd == 2 else 3, use_chunk_shape=True),
                              bounds=dict(ndim=nd, side_max=4 if nd == 2 else 3, chunk_shape='all'), wall_s=1500))
        for bs in [(2, 3), (2, 3, 2), (4,), (3, 1, 2)]:
            hs.append(Harness('unbroadcast %s' % (bs,), body_unbroadcast, params=dict(base_shape=bs), validate=30,
                              bounds=dict(base_shape=bs)))
        for shp in [(3, 4), (5,), (2, 3, 4)]:
            hs.append(Harness('view_shape %s' % (shp,), body_view_shape, params=dict(shape=shp), bounds=dict(shape=shp)))
        hs.append(Harness('categorical 1d n=5', body_categorical, params=dict(n=5, letters=4), bounds=dict(length=5, alphabet=4)))
        hs.append(Harness('categorical 2d n=6', body_categorical, params=dict(n=6, letters=3, twod=True),
                          bounds=dict(shape=(2, 3), alphabet=3, layouts=LAYOUTS)))
    return hs
