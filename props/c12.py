"""C12 - Every serialisation protocol version ever registered still loads what it saved."""
import os
import inspect
import numpy as np

from vtools.runner import Harness, FuncHarness, VERIF

ID = 'C12'
LEVEL = 'other'
EXPLANATION = ('(a) VersionedDict: the real class executed over sequences of writes whose versions are solver '
               'variables (every feasible value enumerated by all-SAT at the int() boundary); (b) registry consistency and (d) redirect table: the tables are read from the current '
               'source and encoded into z3 (termination of the redirect loop = unsat of "still a key after len(table) '
               'steps"), the real lookup_class_with_patches is run on every key; (c) every registered protocol version of '
               'Data/DataCollection is saved with that version\'s saver and reloaded with symbolic payload (C02 machinery)')

def body_versioned_dict(env, K=3, V=4):
    """K writes with symbolic versions (the real class calls int() on them, which the engine answers by
    solver enumeration of every feasible value) against the documented contract"""
    from glue.core.state import VersionedDict
    d = VersionedDict()
    model = {}
    for i in range(K):
        k = 'ab'[env.choice('key%d' % i, 2)]
        v = env.int('version%d' % i, -2, V)
        try:
            d[k, v] = (k, i)
            accepted = True
        except (KeyError, ValueError):
            accepted = False
        v = int(v)
        n = len(model.get(k, []))
        env.true(accepted == (v == n + 1), 'write %d of (%s, version %d) with %d versions stored: accepted iff version == %d'
                 % (i, k, v, n, n + 1))
        if accepted:
            model.setdefault(k, []).append((k, i))
        for kk, vals in model.items():
            for ver, val in enumerate(vals, 1):
                env.true(d.get_version(kk, ver) == val, 'stored version unchanged')
            env.true(d[kk] == (vals[-1], len(vals)), 'd[key] returns the newest version')
            env.true(d.get_version(kk) == vals[-1], 'get_version() defaults to the newest')
            env.true(kk in d, 'key visible')


def versioned_dict_harness(tier):
    K, V = (3, 4) if tier == 'quick' else (4, 5)
    return Harness('VersionedDict K=%d' % K, body_versioned_dict, params=dict(K=K, V=V), validate=50,
                   bounds=dict(writes=K, keys=2, version_range=[-2, V]), max_paths=500000, wall_s=3000)


def replay(blob):
    w = blob.get('witness') or {}
    if w.get('kind') == 'table':
        msg = _table_problem(w['what'], w['item'])
        return (True, msg) if msg else (False, 'table problem does not reproduce: %s' % w)
    return None


# ---------------------------------------------------------------------------- tables

def _table_problem(what, item):
    """re-evaluate one finding about the registries / redirect table on the real code -> message or None"""
    from glue.core import state
    from glue.utils.misc import lookup_class
    P = state.PATH_PATCHES
    if what == 'cycle':
        n, seen = item, set()
        while n in P:
            if n in seen:
                return 'redirect table cycles at %s: lookup_class_with_patches would not terminate' % n
            seen.add(n)
            n = P[n]
        return None
    if what == 'partial':
        import glue.core.state as gs
        real_lookup = gs.lookup_class
        try:
            gs.lookup_class = lambda n: n
            out = gs.lookup_class_with_patches(item)
        finally:
            gs.lookup_class = real_lookup
        if out in P:
            return ('lookup_class_with_patches(%s) stops at %s, which the table redirects further (to %s): the chain of renames '
                    'is not followed to its end' % (item, out, P[out]))
        return None
    if what == 'unimportable':
        n, k = item, 0
        while n in P and k <= len(P):
            n = P[n]
            k += 1
        if n.startswith('glue.'):
            try:
                lookup_class(n)
            except Exception as e:
                return 'redirect %s resolves to %s inside this package, which is not importable (%s)' % (item, n, e)
        return None
    if what == 'capture':
        return _captures(item)
    if what == 'versions':
        S, U = state.GlueSerializer.dispatch._data, state.GlueUnSerializer.dispatch._data
        for reg, name in ((S, 'saver'), (U, 'loader')):
            for t, vs in reg.items():
                if '%s.%s' % (t.__module__, t.__qualname__) == item and sorted(vs) != list(range(1, len(vs) + 1)):
                    return '%s versions of %s are not consecutive from 1: %s' % (name, item, sorted(vs))
        for t, vs in S.items():
            if '%s.%s' % (t.__module__, t.__qualname__) == item and t in U:
                miss = [v for v in vs if v not in U[t]]
                if miss:
                    return 'saver versions %s of %s have no loader' % (miss, item)
                if max(vs) != S_newest(state, t):
                    return 'save does not use the newest version for %s' % item
        return None
    return None


def S_newest(state, t):
    return state.GlueSerializer.dispatch[t][1]


def _captures(key):
    from glue.core import state
    from glue.utils.misc import lookup_class
    if not key.startswith('glue.core.'):
        return None
    try:
        o = lookup_class(key)
    except Exception:
        return None
    if not isinstance(o, type) or (o.__module__ + '.' + o.__qualname__) != key or inspect.isabstract(o):
        return None
    S = state.GlueSerializer
    writes = hasattr(o, '__gluestate__') or any(t in S.dispatch for t in o.__mro__ if t is not object)
    if writes:
        return ('redirect table captures %s, a concrete class this package defines and writes (-> %s)'
                % (key, state.PATH_PATCHES[key]))
    return None


def tables_harness(tier):
    def fn(res, funcs):
        import z3
        import time
        from glue.core import state
        P = dict(state.PATH_PATCHES)
        st = res['stats']
        st.update(paths=0, obligations=0, discharged=0, queries=0, solver_s=0.0)
        names = sorted(set(P) | set(P.values()))
        idx = {n: i for i, n in enumerate(names)}
        # --- termination as a solver query over the table read from the current source:
        # nxt(i) = redirect target, is_key(i);  exists start: after len(P)+1 steps still a key  -> must be unsat
        s = z3.Solver()
        nxt = z3.Function('nxt', z3.IntSort(), z3.IntSort())
        iskey = z3.Function('iskey', z3.IntSort(), z3.BoolSort())
        for n, i in idx.items():
            s.add(iskey(i) == (n in P))
            s.add(nxt(i) == (idx[P[n]] if n in P else i))
        x = z3.Int('start')
        s.add(x >= 0, x < len(names))
        cur = x
        for _ in range(len(P) + 1):
            s.add(iskey(cur))
            cur = nxt(cur)
        t0 = time.time()
        r = s.check()
        st['solver_s'] += time.time() - t0
        st['queries'] += 1
        st['obligations'] += 1
        res['samples'].append({'query': 'exists name: still a redirect key after %d steps' % (len(P) + 1), 'answer': str(r),
                               'table_entries': len(P)})
        if r == z3.unsat:
            st['discharged'] += 1
        elif r == z3.sat:
            start = names[s.model()[x].as_long()]
            res['violations'].append(dict(label='redirect table has a cycle reachable from %s' % start,
                                          witness=dict(kind='table', what='cycle', item=start), script=None))
        else:
            res['inconclusive'].append('termination query unknown')
        # --- the real lookup loop on every key (lookup_class stubbed to identity): terminates within the bound
        import glue.core.state as gs
        real_lookup = gs.lookup_class
        try:
            gs.lookup_class = lambda n: n
            for k in P:
                st['obligations'] += 1
                n, steps = k, 0
                while n in P and steps <= len(P):
                    n = P[n]
                    steps += 1
                if steps > len(P):
                    continue    # reported by the solver query above
                out = gs.lookup_class_with_patches(k)
                if out in P:
                    res['violations'].append(dict(label='lookup_class_with_patches(%s) returned a redirected name' % k,
                                                  witness=dict(kind='table', what='partial', item=k), script=None))
                else:
                    st['discharged'] += 1
        finally:
            gs.lookup_class = real_lookup
        # --- finite scans over the tables (auxiliary)
        for k in P:
            for what in ('unimportable', 'capture'):
                st['obligations'] += 1
                msg = _table_problem(what, k)
                if msg:
                    res['violations'].append(dict(label=msg, witness=dict(kind='table', what=what, item=k), script=None))
                else:
                    st['discharged'] += 1
        S, U = state.GlueSerializer.dispatch._data, state.GlueUnSerializer.dispatch._data
        for t in set(S) | set(U):
            st['obligations'] += 1
            item = '%s.%s' % (t.__module__, t.__qualname__)
            msg = _table_problem('versions', item)
            if msg:
                res['violations'].append(dict(label=msg, witness=dict(kind='table', what='versions', item=item), script=None))
            else:
                st['discharged'] += 1
        out_of_scope = [k for k in P if not k.startswith('glue.core.')]
        res['samples'].append({'redirect_keys_outside_glue.core_not_judged_for_capture': len(out_of_scope)})
        st['paths'] = 1
        res['functions'] = ['glue/core/state.py:lookup_class_with_patches', 'glue/core/state.py:<module> (PATH_PATCHES)',
                            'glue/core/state.py:saver', 'glue/core/state.py:loader']
    return FuncHarness('tables (redirects, registries)', fn, kind='z3+scan',
                       bounds=dict(unrolling='len(table)+1 steps', scope='capture check judged for keys in glue.core.* only'),
                       assumptions=['"concrete class this package defines and writes" = importable under exactly that name, '
                                    'not abstract, has __gluestate__ or a registered saver; judged for glue.core.* keys'])


def harnesses(tier):
    hs = [versioned_dict_harness(tier), tables_harness(tier)]
    try:
        from . import c02
        hs += c02.old_version_harnesses(tier)
    except (ImportError, AttributeError):
        pass
    return hs
