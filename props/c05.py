"""C05 - Results always reflect the current data, regions and links - never a stale cache."""
import operator
import numpy as np

from vtools.runner import Harness
from .common import mk_data, kf_active

ID = 'C05'
LEVEL = 'other'
EXPLANATION = ('two-state symbolic execution: objects are built over symbolic values x, everything is evaluated (filling every '
               'memo), then values / region parameters / links are changed through the public API to fresh symbolic values x\', '
               'and the second evaluation is proved equal (z3) to a never-evaluated copy built directly over x\'; a stale cache '
               'shows up as a result that still mentions x and the solver returns values separating the two')

KINDS = ['ineq', 'range', 'multirange', 'rect', 'mask', 'slice', 'and', 'or', 'invert', 'multi-or', 'ineq-derived', 'element']
MEMOIZED_COMPOSITES = ('and', 'or', 'invert', 'multi-or')


def make_state(env, kind, d, P, tag=''):
    """selection of the given kind with parameters P (dict of symbolic reals) -> (state, definition as function of x, y)"""
    from glue.core import subset as ss
    from glue.core.roi import RectangularROI
    t, lo, hi = P['t'], P['lo'], P['hi']
    shape = d.shape
    if kind == 'ineq':
        return d.id['x'] > t, lambda x, y: x > t
    if kind == 'ineq-derived':
        return d.id['z'] <= t, lambda x, y: (x * 2 + y) <= t
    if kind == 'range':
        return ss.RangeSubsetState(lo, hi, att=d.id['x']), lambda x, y: (x >= lo) & (x <= hi)
    if kind == 'multirange':
        return ss.MultiRangeSubsetState([(lo, hi), (t, t + 1)], att=d.id['y']), lambda x, y: ((y >= lo) & (y <= hi)) | ((y >= t) & (y <= t + 1))
    if kind == 'rect':
        return (ss.RoiSubsetState(d.id['x'], d.id['y'], RectangularROI(lo, hi, t, t + 2)),
                lambda x, y: (x > lo) & (x < hi) & (y > t) & (y < t + 2))
    if kind == 'mask':
        m = P['m']
        return ss.MaskSubsetState(m, d.pixel_component_ids), lambda x, y: m
    if kind == 'slice':
        m = np.zeros(shape, dtype=bool)
        m[1:] = True
        return ss.SliceSubsetState(d, [slice(1, None)]), lambda x, y: m
    if kind == 'element':
        m = np.zeros(shape, dtype=bool)
        m.flat[[0, m.size - 1]] = True
        return ss.ElementSubsetState(indices=[0, m.size - 1], data=d), lambda x, y: m
    if kind == 'and':
        return (d.id['x'] > t) & ss.RangeSubsetState(lo, hi, att=d.id['y']), lambda x, y: (x > t) & (y >= lo) & (y <= hi)
    if kind == 'or':
        return ss.RangeSubsetState(lo, hi, att=d.id['y']) | ss.RangeSubsetState(t, t + 1, att=d.id['x']), \
            lambda x, y: ((y >= lo) & (y <= hi)) | ((x >= t) & (x <= t + 1))
    if kind == 'invert':
        return ~ss.RangeSubsetState(lo, hi, att=d.id['x']), lambda x, y: ~((x >= lo) & (x <= hi))
    if kind == 'multi-or':
        return ss.MultiOrState([ss.RangeSubsetState(lo, hi, att=d.id['x']), d.id['y'] < t]), lambda x, y: ((x >= lo) & (x <= hi)) | (y < t)
    raise ValueError(kind)


def params(env, shape, tag=''):
    return dict(t=env.real('t' + tag, lo=-4, hi=4), lo=env.real('lo' + tag, lo=-4, hi=4), hi=env.real('hi' + tag, lo=-4, hi=4),
                m=env.bools('m' + tag, shape))


def cache_pressure(d, n):
    """many distinct memoised evaluations before the scenario (a bounded memo must still be invalidated correctly)"""
    for i in range(n):
        d.get_mask(d.id['x'] > (i * 0.01))
        d.get_mask((d.id['x'] > (i * 0.01)) & (d.id['y'] > 0))


def stale_in_recorded_finding(kind, attached):
    """witness class of the recorded finding C05/memo-not-invalidated for value changes: a memoised selection that was
    evaluated before the change and whose memo is not the one cleared by update_components (which clears only the memo of
    the class of the top-level state of each subset of the updated dataset)"""
    if attached:
        return kind in ('and', 'multi-or')          # memoised Inequality child below the top-level state
    return kind in ('ineq', 'ineq-derived', 'and', 'or', 'invert', 'multi-or')


def nested_memo_stale_possible(kind):
    """the recorded finding: memoised sub-selections below the top-level state are not invalidated"""
    return kind in MEMOIZED_COMPOSITES + ('ineq-derived',)


def body_values(env, shape=(3,), kinds=KINDS, how=None, pressure=(0,), stats=False, attached=None, second=False):
    """values replaced (update_components / update_values_from_data): every subset mask, statistic and derived value is that
    of a fresh dataset over the new values"""
    from glue.core import Data, DataCollection
    x0, y0 = env.reals('x', shape, nan=True), env.reals('y', shape, lo=-9, hi=9)
    x1, y1 = env.reals('xn', shape, nan=True), env.reals('yn', shape, lo=-9, hi=9)
    d = mk_data('d', x=x0, y=y0)
    d.add_component_link(d.id['x'] * 2 + d.id['y'], 'z')
    dc = DataCollection([d])
    kind = kinds[env.choice('kind', len(kinds))]
    P = params(env, shape)
    st, defn = make_state(env, kind, d, P)
    attach = env.choice('attached', 2) if attached is None else attached
    if kf_active('C05/memo-not-invalidated') and stale_in_recorded_finding(kind, attach):
        env.assume(False)
    if attach:
        g = dc.new_subset_group(subset_state=st)
        sub = d.subsets[0]
        ev = lambda: sub.to_mask()
    else:
        ev = lambda: d.get_mask(st)
    pr = pressure[env.choice('pressure', len(pressure))]
    if pr:
        cache_pressure(d, pr)
    # first evaluation fills every memo
    env.same(ev(), defn(x0, y0), 'mask before the change (%s)' % kind)
    if stats:
        s0 = d.compute_statistic('sum', d.id['z'], subset_state=st if not attach else sub.subset_state)
    hw = how if how is not None else env.choice('how', 3)
    if hw == 0:
        d.update_components({d.id['x']: x1, d.id['y']: y1})
        xn, yn = x1, y1
    elif hw == 1:
        d.update_components({d.get_component(d.id['x']): x1})          # by Component object, one attribute only
        xn, yn = x1, y0
    else:
        other = mk_data('d', x=x1, y=y1)
        d.update_values_from_data(other)
        xn, yn = x1, y1
    if hw == 2 and kind == 'ineq-derived':
        env.assume(False)          # update_values_from_data drops attributes missing from the new dataset (z): not a cache issue
    tag = '%s, attached=%d, change=%d, pressure=%d' % (kind, attach, hw, pr)
    env.same(ev(), defn(xn, yn), 'mask after the change equals the mask of a fresh dataset: ' + tag)
    env.same(d['x'], xn, 'values of x after the change')
    if hw != 2:
        env.same(d['z'], xn * 2 + yn, 'derived values after the change')
    if second and hw != 2:
        # a second change after the memos were refilled by the evaluations above
        x2, y2 = env.reals('xm', shape, nan=True), env.reals('ym', shape, lo=-9, hi=9)
        hw2 = env.choice('how2', 2)
        if hw2 == 0:
            d.update_components({d.id['y']: y2})
            xn, yn = xn, y2
        else:
            d.update_components({d.id['x']: x2, d.id['y']: y2})
            xn, yn = x2, y2
        env.same(ev(), defn(xn, yn), 'mask after a second change (%d): %s' % (hw2, tag))
        env.same(d['z'], xn * 2 + yn, 'derived values after a second change')
    if not stats:
        return
    stat_state = st if not attach else sub.subset_state
    got = d.compute_statistic('sum', d.id['x'], subset_state=stat_state)
    keep = defn(xn, yn) & np.isfinite(xn)
    want = np.sum(np.where(keep, xn, 0.0))
    n = np.sum(keep)
    if env.symbolic:
        env.same(got, env.ite(n == 0, float('nan'), want), 'statistic after the change: ' + tag)
    else:
        env.same(got, want if n else float('nan'), 'statistic after the change: ' + tag)
    if env.symbolic:
        from .c10 import install_hist_stub, _HIST
        install_hist_stub()
        _HIST['true_hi'] = 10.0
    h = d.compute_histogram([d.id['y']], range=[(-10.0, 10.0)], bins=[1], subset_state=stat_state)
    inr = defn(xn, yn) & (yn >= -10.0) & (yn <= 10.0)
    env.same(h[0], np.sum(np.where(inr, 1.0, 0.0)), 'histogram after the change: ' + tag)


def _has_memoised_child(kind):
    # 'and' = Inequality & Range; 'multi-or' = [Range, Inequality]; 'or' and 'invert' only hold non-memoised Range children
    return kind in ('and', 'multi-or', 'ineq-derived')


def body_params(env, shape=(3,)):
    """region / bounds edits on selections (setters, move_to, replacing the ROI object): the next mask is that of a
    never-evaluated copy with the new parameters"""
    from glue.core import subset as ss
    from glue.core.roi import RectangularROI, CircularROI
    x, y = env.reals('x', shape, nan=True), env.reals('y', shape)
    d = mk_data('d', x=x, y=y)
    P, Q = params(env, shape), params(env, shape, 'n')
    case = env.choice('case', 9)
    wrap = env.choice('wrap', 2)
    if case == 0:
        st = ss.RangeSubsetState(P['lo'], P['hi'], att=d.id['x'])
        first = (x >= P['lo']) & (x <= P['hi'])
        def edit():
            st.lo, st.hi = Q['lo'], Q['hi']
        after = (x >= Q['lo']) & (x <= Q['hi'])
    elif case == 1:
        st = ss.RangeSubsetState(P['lo'], P['hi'], att=d.id['x'])
        first = (x >= P['lo']) & (x <= P['hi'])
        def edit():
            st.move_to(Q['t'])
        c = (P['hi'] - P['lo']) * 0.5 + P['lo']
        dx = Q['t'] - c
        after = (x >= P['lo'] + dx) & (x <= P['hi'] + dx)
    elif case == 2:
        st = ss.RangeSubsetState(P['lo'], P['hi'], att=d.id['x'])
        first = (x >= P['lo']) & (x <= P['hi'])
        def edit():
            st.att = d.id['y']
        after = (y >= P['lo']) & (y <= P['hi'])
    elif case == 3:
        roi = RectangularROI(P['lo'], P['lo'] + 2, P['t'], P['t'] + 2)
        st = ss.RoiSubsetState(d.id['x'], d.id['y'], roi)
        first = (x > P['lo']) & (x < P['lo'] + 2) & (y > P['t']) & (y < P['t'] + 2)
        def edit():
            st.move_to(Q['lo'], Q['t'])          # centre of the region moved
        after = (x > Q['lo'] - 1) & (x < Q['lo'] + 1) & (y > Q['t'] - 1) & (y < Q['t'] + 1)
    elif case == 4:
        roi = RectangularROI(P['lo'], P['lo'] + 2, P['t'], P['t'] + 2)
        st = ss.RoiSubsetState(d.id['x'], d.id['y'], roi)
        first = (x > P['lo']) & (x < P['lo'] + 2) & (y > P['t']) & (y < P['t'] + 2)
        def edit():
            st.roi = RectangularROI(Q['lo'], Q['lo'] + 1, Q['t'], Q['t'] + 3)
        after = (x > Q['lo']) & (x < Q['lo'] + 1) & (y > Q['t']) & (y < Q['t'] + 3)
    elif case == 5:
        roi = RectangularROI(P['lo'], P['lo'] + 2, P['t'], P['t'] + 2)
        st = ss.RoiSubsetState(d.id['x'], d.id['y'], roi)
        first = (x > P['lo']) & (x < P['lo'] + 2) & (y > P['t']) & (y < P['t'] + 2)
        def edit():
            roi.xmin, roi.xmax = Q['lo'], Q['lo'] + 3          # the ROI object edited in place
        after = (x > Q['lo']) & (x < Q['lo'] + 3) & (y > P['t']) & (y < P['t'] + 2)
    elif case == 6:
        st = ss.MaskSubsetState(P['m'], d.pixel_component_ids)
        first = P['m']
        def edit():
            st.mask = Q['m']
        after = Q['m']
    elif case == 7:
        st = ss.MultiRangeSubsetState([(P['lo'], P['hi'])], att=d.id['x'])
        first = (x >= P['lo']) & (x <= P['hi'])
        def edit():
            st.pairs = [(Q['lo'], Q['hi']), (Q['t'], Q['t'] + 1)]
        after = ((x >= Q['lo']) & (x <= Q['hi'])) | ((x >= Q['t']) & (x <= Q['t'] + 1))
    else:
        st = ss.InequalitySubsetState(d.id['x'], P['t'], operator.gt)
        first = x > P['t']
        def edit():
            st.right = Q['t']
            st.operator = operator.le
        after = x <= Q['t']
        if kf_active('C05/memo-not-invalidated'):
            env.assume(False)          # recorded finding: memoised state, edit not seen
    top = st
    f_wrap = lambda m: m
    if wrap:
        top = ~st
        f_wrap = lambda m: ~m
        if kf_active('C05/memo-not-invalidated'):
            env.assume(False)          # recorded finding: edits below a memoised composite are not seen
    env.same(d.get_mask(top), f_wrap(first), 'mask before the edit (case %d)' % case)
    if wrap:
        top.state1_edit = None
        # the composite holds a *copy* of the state: edit that copy through the composite
        st = top.state1
        if case == 5:
            roi = st.roi
    edit()
    env.same(d.get_mask(top), f_wrap(after), 'mask after the edit equals the mask of a fresh selection (case %d, wrapped=%d)' % (case, wrap))


def body_links(env, shape=(3,)):
    """links added / removed / replaced: linked values and masks follow immediately"""
    from glue.core import DataCollection
    from glue.core.component_link import ComponentLink
    from glue.core.exceptions import IncompatibleAttribute
    a = env.reals('a', shape)
    b = env.reals('b', shape)
    d1 = mk_data('d1', a=a)
    d2 = mk_data('d2', b=b)
    dc = DataCollection([d1, d2])
    f1 = lambda v: v * 2
    f2 = lambda v: v * 3 + 1
    l1 = ComponentLink([d1.id['a']], d2.id['b'], using=f1)
    l2 = ComponentLink([d1.id['a']], d2.id['b'], using=f2)
    dc.add_link(l1)
    t = env.real('t', lo=-4, hi=4)
    st = d2.id['b'] > t
    env.same(d1[d2.id['b']], a * 2, 'linked values after add_link')
    env.same(d1.get_mask(d2.id['b'] > t), (a * 2) > t, 'mask on a linked attribute')
    s0 = d1.compute_statistic('maximum', d2.id['b'])
    how = env.choice('how', 4)
    if how == 0:
        dc.set_links([l2])                       # replaced by another link with the same target in one update
        want = a * 3 + 1
    elif how == 1:
        with dc.delay_link_manager_update():
            dc.remove_link(l1)
            dc.add_link(l2)
        want = a * 3 + 1
    elif how == 2:
        dc.remove_link(l1)
        dc.add_link(l2)
        want = a * 3 + 1
    else:
        dc.remove_link(l1)
        want = None
    if want is None:
        try:
            d1[d2.id['b']]
            ok = False
        except IncompatibleAttribute:
            ok = True
        env.true(ok, 'attribute no longer reachable after remove_link')
        env.true(d2.id['b'] not in d1.externally_derivable_components, 'no reference to the removed link target')
    else:
        env.same(d1[d2.id['b']], want, 'linked values follow the replaced link (how=%d)' % how)
        env.same(d1.get_mask(d2.id['b'] > (t + 0)), want > t, 'mask follows the replaced link (how=%d)' % how)
        env.same(d1.compute_statistic('maximum', d2.id['b']), np.max(want), 'statistic follows the replaced link (how=%d)' % how)
        h = d1.compute_histogram([d2.id['b']], range=[(-100.0, 100.0)], bins=[1]) if not env.symbolic else None


def body_coords(env):
    """a dataset refreshed with new coordinates: world values derived *by another dataset* through pixel links follow"""
    from glue.core import DataCollection
    from glue.core.coordinates import AffineCoordinates
    from glue.core.link_helpers import LinkSame
    M1 = np.array([[2.0, 0.5, 1.0], [0.25, 3.0, -1.0], [0.0, 0.0, 1.0]])
    M2 = np.array([[3.0, -0.5, -5.0], [0.5, 1.5, 2.0], [0.0, 0.0, 1.0]])
    x = env.reals('x', (2, 3))
    img = mk_data('img', coords=AffineCoordinates(M1), x=x)
    i = env.reals('i', (3,), lo=-4, hi=4)
    j = env.reals('j', (3,), lo=-4, hi=4)
    tab = mk_data('tab', i=i, j=j)
    dc = DataCollection([img, tab])
    dc.add_link(LinkSame(tab.id['i'], img.pixel_component_ids[0]))
    dc.add_link(LinkSame(tab.id['j'], img.pixel_component_ids[1]))

    def world(M, k):          # world axis k in matrix order from (x=j, y=i)
        return M[k, 0] * j + M[k, 1] * i + M[k, 2]
    for a in range(2):
        env.close(tab[img.world_component_ids[a]], world(M1, 1 - a), 1e-9, 'world axis %d derived by the table before the change' % a)
    how = env.choice('how', 2)
    if how == 0:
        other = mk_data('img', coords=AffineCoordinates(M2), x=env.reals('xn', (2, 3)))
        img.update_values_from_data(other)
    else:
        img.coords = AffineCoordinates(M2)
    t = env.real('t', lo=-20, hi=20)
    for a in range(2):
        w = img.world_component_ids[a]
        env.close(tab[w], world(M2, 1 - a), 1e-9, 'world axis %d derived by the table after new coordinates (how=%d)' % (a, how))
        env.same(tab.get_mask(w > t), world(M2, 1 - a) > t, 'selection on world axis %d evaluated on the table after new coordinates' % a)
    env.close(img[img.world_component_ids[0]][1, 2], M2[1, 0] * 2 + M2[1, 1] * 1 + M2[1, 2], 1e-9, 'world value of the image itself')


def _known_memo():
    from glue.core import Data
    d = Data(x=[1., 2., 3.])
    st = (d.id['x'] > 1.5) & (d.id['x'] < 2.5)
    d.add_subset(st)
    before = d.subsets[0].to_mask().tolist()
    d.update_components({d.id['x']: np.array([2., 9., 9.])})
    after = d.subsets[0].to_mask().tolist()
    return after != [True, False, False]


KNOWN_DEMOS = {'C05/memo-not-invalidated': _known_memo}


def harnesses(tier):
    hs = []
    shape = (3,) if tier == 'quick' else (2, 2)
    names = ['update_components', 'update one Component', 'update_values_from_data']
    for hw in (0, 1, 2):
        hs.append(Harness('values %s %s' % (shape, names[hw]), body_values, params=dict(shape=shape, kinds=KINDS, how=hw), validate=15,
                          weight=3, bounds=dict(shape=shape, kinds=KINDS, change=names[hw], attached=[0, 1])))
    for kd in (['range'], ['ineq'], ['mask', 'invert']) if tier == 'quick' else (['range'], ['ineq'], ['mask'], ['invert'], ['rect']):
        hs.append(Harness('values with statistics (2,) %s' % '+'.join(kd), body_values,
                          params=dict(shape=(2,), kinds=kd, stats=True, attached=1, how=0 if tier == 'quick' else None), validate=15, weight=6,
                          bounds=dict(shape=(2,), kinds=kd, statistic='sum', histogram_bins=1)))
    hs.append(Harness('values under cache pressure %s' % (shape,), body_values,
                      params=dict(shape=shape, kinds=['ineq', 'invert', 'range', 'or'], pressure=(130,), attached=1), validate=5, weight=6,
                      bounds=dict(shape=shape, kinds=['ineq', 'invert', 'range', 'or'], memoised_evaluations_before=260)))
    if tier == 'thorough':
        for hw in (0, 1):
            for shp in ((3,), (2, 2)):
                hs.append(Harness('values %s %s then a second change' % (shp, names[hw]), body_values,
                                  params=dict(shape=shp, kinds=KINDS, how=hw, second=True), validate=15, weight=5, wall_s=1800,
                                  bounds=dict(shape=shp, kinds=KINDS, changes=[names[hw], 'update_components (y | x and y)'], attached=[0, 1])))
        hs.append(Harness('values under cache pressure (3,) all kinds', body_values,
                          params=dict(shape=(3,), kinds=KINDS, pressure=(130, 300), attached=1), validate=5, weight=8, wall_s=1800,
                          bounds=dict(shape=(3,), kinds=KINDS, memoised_evaluations_before=[260, 600])))
    hs.append(Harness('params %s' % (shape,), body_params, params=dict(shape=(3,)), validate=30, bounds=dict(shape=(3,), cases=9)))
    hs.append(Harness('links %s' % (shape,), body_links, params=dict(shape=(3,)), validate=30, bounds=dict(shape=(3,), changes=4)))
    hs.append(Harness('coordinates replaced', body_coords, validate=30, bounds=dict(image=(2, 3), table_rows=3, changes=['update_values_from_data', 'coords setter'])))
    return hs
