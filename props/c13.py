"""C13 - Undo restores the previous session state and redo restores the undone one."""
import numpy as np

from vtools.runner import Harness
from .common import kf_active
from .structs import World, NDATA

ID = 'C13'
LEVEL = 'model_checking'
EXPLANATION = ('bounded model checking of the real CommandStack / command classes on a real Session: every sequence of '
               'do(command) / undo / redo up to the depth bound (commands, their arguments and edit modes are solver-chosen) is '
               'executed; after each undo the session snapshot (datasets, groups with label and style, per-dataset membership, '
               'edit-subset choice, and the mask of every subset as an SMT term over symbolic data) is proved equal to the '
               'snapshot before the command, after each redo to the snapshot after it; a new command clears the redo history '
               'and the undo history never exceeds MAX_UNDO')

MODES = ['ReplaceMode', 'AndMode', 'OrMode', 'XorMode', 'AndNotMode', 'NewMode']
OPS = ['do AddData(d1)', 'do AddData(d2)', 'do RemoveData(d0)', 'do RemoveData(d1)', 'do ApplySubsetState', 'do ApplySubsetState(override_mode)',
       'do ApplyROI', 'undo', 'redo']


def same_snapshot(env, a, b, label):
    # (the position of a re-added dataset in the collection is not considered part of the state: compared as sets)
    env.true(sorted(a['data']) == sorted(b['data']), '%s: datasets differ: %r vs %r' % (label, a['data'], b['data']))
    for key in ('groups', 'edit'):
        env.true(a[key] == b[key], '%s: %s differs: %r vs %r' % (label, key, a[key], b[key]))
    pa = dict(zip(a['data'], a['per_data']))
    pb = dict(zip(b['data'], b['per_data']))
    env.true(pa == pb, '%s: per-dataset subset membership differs: %r vs %r' % (label, pa, pb))
    if sorted(a['data']) == sorted(b['data']) and len(a['real']) == len(b['real']):
        for gi, (ra, rb) in enumerate(zip(a['real'], b['real'])):
            ra = dict(zip(a['data'], ra))
            rb = dict(zip(b['data'], rb))
            for di in sorted(ra):
                ma, mb = ra[di], rb[di]
                if ma is None or mb is None:
                    env.true(ma is None and mb is None, '%s: subset of group %d missing on dataset %s' % (label, gi, di))
                else:
                    env.same(ma, mb, '%s: mask of group %d on dataset %s' % (label, gi, di))


def snap(w):
    s = w.snapshot()
    s['real'] = w.real_masks()
    return s


def body(env, k=4, first=None, initial=None, ops=None, modes=None, omodes=None, edit=None, later_ops=None, nfirst=1):
    from glue.core import command as cmd
    from glue.core import edit_subset_mode as esm
    from glue.core.roi import XRangeROI
    from glue.core.subset import RangeSubsetState
    ops = list(range(len(OPS))) if ops is None else ops
    modes = MODES if modes is None else modes
    omodes = MODES if omodes is None else omodes
    init = env.choice('initial', 3) if initial is None else initial
    w = World(env, initial=init)
    if (env.choice('edit_subset_set', 2) if edit is None else edit) and w.live_groups():
        w.mode.edit_subset = [w.live_groups()[0]]
    undo_model, redo_model = [], []
    # the edit mode is session state, not a command argument: it is chosen once per trace
    w.mode.mode = getattr(esm, modes[env.choice('mode', len(modes))])
    for step in range(k):
        if step == 0 and first is not None:
            op = first
        elif later_ops is not None and step >= nfirst:
            op = later_ops[env.choice('op%d' % step, len(later_ops))]
        else:
            op = ops[env.choice('op%d' % step, len(ops))]
        name = OPS[op]
        w.trace.append(name)
        if name.startswith('do '):
            if name == 'do AddData(d1)':
                c = cmd.AddData(data=w.data[1])
            elif name == 'do AddData(d2)':
                c = cmd.AddData(data=w.data[2])
            elif name == 'do RemoveData(d0)':
                if w.data[0] not in w.dc._data:
                    env.assume(False)
                c = cmd.RemoveData(data=w.data[0])
            elif name == 'do RemoveData(d1)':
                if w.data[1] not in w.dc._data:
                    env.assume(False)
                c = cmd.RemoveData(data=w.data[1])
            elif name == 'do ApplySubsetState':
                w.trace[-1] += ' mode=' + w.mode.mode.__name__
                c = cmd.ApplySubsetState(data_collection=w.dc, subset_state=w.new_state())
            elif name == 'do ApplySubsetState(override_mode)':
                m = omodes[env.choice('omode%d' % step, len(omodes))]
                w.trace[-1] += ' override=' + m
                c = cmd.ApplySubsetState(data_collection=w.dc, subset_state=w.new_state(), override_mode=getattr(esm, m))
            else:
                lo = w.new_threshold()

                def apply_roi(roi, w=w):
                    st = RangeSubsetState(roi.min, roi.max, att=None)
                    # a range on the attribute labelled 'x' of whichever dataset evaluates it
                    from .structs import make_xgreater
                    w.mode.update(w.dc, make_xgreater(roi.min))
                c = cmd.ApplyROI(data_collection=w.dc, roi=XRangeROI(lo, lo + 1), apply_func=apply_roi)
            if 'Apply' in name and len(w.dc._data) == 0 and kf_active('C13/apply-undo-empty-collection'):
                env.assume(False)          # recorded finding: nothing is remembered when the collection holds no dataset
            pre = snap(w)
            ngroups = len(w.live_groups())
            w.stack.do(c)
            post = snap(w)
            created = len(w.live_groups()) > ngroups
            undo_model.append((pre, post, created, w.trace[-1]))
            redo_model = []
            env.true(not w.stack.can_undo_redo()[1], 'a new command clears the redo history')
        elif name == 'undo':
            if not undo_model:
                env.assume(False)
            pre, post, created, what = undo_model.pop()
            if created and kf_active('C13/undo-of-group-creation'):
                env.assume(False)          # recorded finding: the created group / edit-subset choice survive the undo
            w.stack.undo()
            same_snapshot(env, snap(w), pre, 'after undo of [%s] in %s' % (what, w.trace))
            redo_model.append((pre, post, created, what))
        else:
            if not redo_model:
                env.assume(False)
            pre, post, created, what = redo_model.pop()
            w.stack.redo()
            same_snapshot(env, snap(w), post, 'after redo of [%s] in %s' % (what, w.trace))
            undo_model.append((pre, post, created, what))
        env.true(w.stack.can_undo_redo() == (len(undo_model) > 0, len(redo_model) > 0), 'can_undo_redo matches the history')
        env.count('transitions')
        env.state((tuple(d.label for d in w.dc._data), len(w.live_groups()), len(undo_model), len(redo_model)))
    env.count('traces')


def body_max_undo(env):
    from glue.core import command as cmd
    w = World(env, initial=0)
    n = env.int('n', 45, 58)
    count = 0
    for i in range(int(n)):
        w.stack.do(cmd.AddData(data=w.data[1 + i % 2]))
        count += 1
        env.true(len(w.stack._command_stack) <= cmd.MAX_UNDO, 'undo history bounded by MAX_UNDO after %d commands' % count)
        env.true(len(w.stack._command_stack) == min(count, cmd.MAX_UNDO), 'undo history holds the most recent commands')
    env.count('traces')
    env.count('transitions', count)


def _known_undo_creation():
    from glue.core import Data, DataCollection
    from glue.core.session import Session
    from glue.core.command import ApplySubsetState
    d = Data(x=[1, 2, 3], label='d')
    dc = DataCollection([d])
    s = Session(data_collection=dc)
    s.command_stack.do(ApplySubsetState(data_collection=dc, subset_state=d.id['x'] > 1))
    s.command_stack.undo()
    return len(dc.subset_groups) != 0 or bool(s.edit_subset_mode.edit_subset)


def _known_empty_collection():
    from glue.core import Data, DataCollection
    from glue.core.session import Session
    from glue.core.command import ApplySubsetState
    d = Data(x=[1, 2, 3], label='d')
    dc = DataCollection([d])
    s = Session(data_collection=dc)
    g = dc.new_subset_group(subset_state=d.id['x'] > 1)
    s.edit_subset_mode.edit_subset = [g]
    before = g.subset_state
    dc.remove(d)
    s.command_stack.do(ApplySubsetState(data_collection=dc, subset_state=d.id['x'] > 2))
    s.command_stack.undo()
    return g.subset_state is not before


KNOWN_DEMOS = {'C13/undo-of-group-creation': _known_undo_creation, 'C13/apply-undo-empty-collection': _known_empty_collection}


def _applicable(initial, op):
    name = OPS[op]
    if name in ('undo', 'redo'):
        return False
    if name == 'do RemoveData(d1)':
        return initial == 1
    return True


def harnesses(tier):
    hs = []
    if tier == 'quick':
        k, inits = 4, (0, 1)
        ops = [i for i, o in enumerate(OPS) if o != 'do AddData(d2)']
        modes, omodes = ['ReplaceMode', 'AndMode', 'NewMode'], ['OrMode', 'AndNotMode']
    else:
        # depth 5 with three edit modes / two override modes, and (below) depth 4 with every mode
        k, inits = 5, (0, 1, 2)
        ops, modes, omodes = list(range(len(OPS))), ['ReplaceMode', 'AndMode', 'NewMode'], ['OrMode', 'AndNotMode']
    configs = [(k, modes, omodes)] + ([(4, MODES, MODES)] if tier == 'thorough' else [])
    for (k, modes, omodes) in configs:
      allm = len(modes) == len(MODES)
      for f in ops:
        for ini in inits:
            if not _applicable(ini, f):
                continue
            for ed in ((0, 1) if ini > 0 else (0,)):
              if allm and (ini, ed) != (1, 1):
                  continue
              hs.append(Harness('k=%d%s init=%d edit=%d first=%s' % (k, ' all-modes' if allm else '', ini, ed, OPS[f]), body,
                              params=dict(k=k, first=f, initial=ini, ops=ops, modes=modes, omodes=omodes, edit=ed), max_paths=5000000,
                              wall_s=3400, weight=3,
                              bounds=dict(steps=k, operations=[OPS[i] for i in ops], edit_modes=modes, override_modes=omodes,
                                          datasets=NDATA, initial_state=ini, first=OPS[f])))
    k, modes, omodes = configs[0]
    # a single dataset that carries a group: a selection, then any 3 [4] further steps (every dataset can leave and come back)
    for f in ops:
        if OPS[f].startswith('do Apply'):
            hs.append(Harness('k=%d init=3 edit=1 first=%s' % (k, OPS[f]), body,
                              params=dict(k=k, first=f, initial=3, ops=ops, modes=modes, omodes=omodes, edit=1), max_paths=5000000,
                              wall_s=3400, weight=3,
                              bounds=dict(steps=k, operations=[OPS[i] for i in ops], edit_modes=modes, override_modes=omodes,
                                          datasets=NDATA, initial_state='one dataset with one group', first=OPS[f])))
    # deeper undo/redo interleavings: two solver-chosen commands, then only undo / redo / one more command
    dos = [i for i in ops if OPS[i].startswith('do ')]
    later = [OPS.index('undo'), OPS.index('redo'), OPS.index('do ApplySubsetState')]
    for f in dos:
        if not _applicable(1, f):
            continue
        hs.append(Harness('interleaving k=%d first=%s' % (6 if tier == 'quick' else 7, OPS[f]), body,
                          params=dict(k=6 if tier == 'quick' else 7, first=f, initial=1, ops=dos, modes=['ReplaceMode', 'AndMode'], omodes=['OrMode'],
                                      edit=1, later_ops=later, nfirst=2), max_paths=5000000, wall_s=3400, weight=3,
                          bounds=dict(steps=6 if tier == 'quick' else 7, first_two='any command', later='undo / redo / ApplySubsetState', initial_state=1)))
    hs.append(Harness('MAX_UNDO', body_max_undo, bounds=dict(commands='45..58 (symbolic count)'), weight=1))
    return hs
