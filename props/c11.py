"""C11 - Key joins propagate selections by key membership, in all four join shapes."""
import itertools
import numpy as np

from vtools.runner import Harness
from .common import mk_data, kf_active

ID = 'C11'
LEVEL = 'other'
EXPLANATION = ('Data.join_on_key / get_mask fallback / get_mask_with_key_joins run on symbolic key columns (extended reals incl. '
               'NaN) and an arbitrary (symbolic) selection on the other dataset for the 1-1, 1-n and n-1 shapes, in both '
               'directions, with views, through chains and cycles; for the tuple-of-keys shape the real byte-level '
               'concatenate_arrays runs on solver-enumerated concrete key columns (ints / strings of one dtype) with a symbolic '
               'selection; z3 proves row selected <=> its key equals by value the key of some selected row')


def opaque_selection(env, d, name):
    """a selection only `d` can evaluate, selecting an arbitrary (symbolic) set of its rows"""
    from glue.core.subset import MaskSubsetState
    m = env.bools(name, d.shape)
    return MaskSubsetState(m, d.pixel_component_ids), m


def forked_selection(env, d, name):
    """like opaque_selection, but every membership bit is decided by a solver-controlled fork when the selection is
    evaluated, so that the mask is a concrete boolean array (needed where the real code indexes concrete key columns)"""
    from glue.core.subset import SubsetState
    from glue.core.exceptions import IncompatibleAttribute
    bits = [env.bool('%s[%d]' % (name, i)) for i in range(d.shape[0])]

    class ForkedMask(SubsetState):
        def to_mask(self, data, view=None):
            if data is not d:
                raise IncompatibleAttribute()
            m = np.array([bool(b) for b in bits], dtype=bool)
            return m if view is None else m[view]

        def copy(self):
            return self
    return ForkedMask(), bits


def any_match(env, key, others, sel):
    """exists j: sel[j] and key == others[j]"""
    r = None
    for j in range(len(others)):
        c = sel[j] & (key == others[j])
        r = c if r is None else (r | c)
    return r


VIEWS = [None, (slice(1, None),), (slice(0, None, 2),), (np.array([2, 0]),)]


def body_shapes(env, shape='1-1', n=3, m=3):
    """the single-key shapes: B joined to A, selection defined on A (evaluated on B) and on B (evaluated on A)"""
    from glue.core.exceptions import IncompatibleAttribute
    a1 = env.reals('a1', (n,), nan=True)
    a2 = env.reals('a2', (n,), nan=True)
    b1 = env.reals('b1', (m,), nan=True)
    b2 = env.reals('b2', (m,), nan=True)
    A = mk_data('A', k1=a1, k2=a2)
    B = mk_data('B', j1=b1, j2=b2)
    if shape == '1-1':
        B.join_on_key(A, 'j1', 'k1')
        left_cols, right_cols = [b1], [a1]
    elif shape == '1-n':
        B.join_on_key(A, 'j1', ('k1', 'k2'))
        left_cols, right_cols = [b1], [a1, a2]
    elif shape == 'n-1':
        B.join_on_key(A, ('j1', 'j2'), 'k1')
        left_cols, right_cols = [b1, b2], [a1]
    direction = env.choice('direction', 2)
    if direction == 0:
        target, source, tcols, scols, nt, ns = B, A, left_cols, right_cols, m, n
    else:
        target, source, tcols, scols, nt, ns = A, B, right_cols, left_cols, n, m
    st, sel = opaque_selection(env, source, 'sel')
    view = VIEWS[env.choice('view', len(VIEWS))]
    want = []
    for i in range(nt):
        r = None
        for tc in tcols:
            for sc_ in scols:
                c = any_match(env, tc[i], sc_, sel)
                r = c if r is None else (r | c)
        want.append(r)
    if env.symbolic:
        from vtools import symnp as sn
        want = sn.wrap(np.array(want, dtype=object))
    else:
        want = np.array(want, dtype=bool)
    got = target.get_mask(st, view=view)
    w = want if view is None else want[view]
    env.true(tuple(np.shape(got)) == tuple(np.shape(w)), 'mask shape (shape %s, direction %d, view %r)' % (shape, direction, view))
    env.same(got, w, 'row selected <=> its key equals the key of a selected row (shape %s, direction %d, view %r)' % (shape, direction, view))
    # the selection evaluated where it is defined is untouched
    env.same(source.get_mask(st), sel, 'selection on its own dataset')


INT_KEYS = [0, 1, 5]
STR_LEFT = ['aa', 'bb', 'cc']
STR_RIGHT_SETS = [['bb', 'cc', 'dd'], ['aa', 'aa', 'bb'], ['cc', 'dd', 'ee']]


def body_tuple_keys(env, kind='int', n=2, m=3):
    """n-n shape on concrete same-dtype key columns chosen by the solver (the byte-level comparison runs for real), with a
    symbolic selection on the other dataset"""
    if kind == 'int':
        lv = [[INT_KEYS[env.choice('l%d_%d' % (c, i), len(INT_KEYS))] for i in range(n)] for c in range(2)]
        rsets = [[[0, 1, 5], [5, 5, 0]], [[1, 1, 0], [0, 1, 1]], [[5, 0, 2], [2, 0, 5]]]
        rv = rsets[env.choice('right', len(rsets))]
        L = [np.array(c, dtype=np.int64) for c in lv]
        Rr = [np.array(c, dtype=np.int64) for c in rv]
    elif kind == 'float':
        vals = [0.0, -0.5, 2.25]
        lv = [[vals[env.choice('l%d_%d' % (c, i), len(vals))] for i in range(n)] for c in range(2)]
        rsets = [[[0.0, -0.5, 2.25], [2.25, 2.25, 0.0]], [[-0.5, -0.5, 0.0], [0.0, -0.5, -0.5]]]
        rv = rsets[env.choice('right', len(rsets))]
        L = [np.array(c, dtype=float) for c in lv]
        Rr = [np.array(c, dtype=float) for c in rv]
    else:
        lv = [[STR_LEFT[env.choice('l%d_%d' % (c, i), len(STR_LEFT))] for i in range(n)] for c in range(2)]
        k = env.choice('right', len(STR_RIGHT_SETS))
        rv = [STR_RIGHT_SETS[k], STR_RIGHT_SETS[(k + 1) % len(STR_RIGHT_SETS)]]
        L = [np.array(c) for c in lv]
        Rr = [np.array(c) for c in rv]
    from glue.core import Data
    A = Data(label='A', k1=Rr[0], k2=Rr[1])
    B = Data(label='B', j1=L[0], j2=L[1])
    B.join_on_key(A, ('j1', 'j2'), ('k1', 'k2'))
    direction = env.choice('direction', 2)
    if direction == 0:
        target, source, tk, sk = B, A, lv, rv
    else:
        target, source, tk, sk = A, B, rv, lv
    st, sel = forked_selection(env, source, 'sel')
    nt, ns = len(tk[0]), len(sk[0])
    want = []
    for i in range(nt):
        r = None
        for j in range(ns):
            same = (tk[0][i] == sk[0][j]) and (tk[1][i] == sk[1][j])
            if same:
                r = sel[j] if r is None else (r | sel[j])
        want.append(bool(r) if r is not None else False)
    got = target.get_mask(st)
    want = np.array(want, dtype=bool)
    env.same(got, want, 'tuple keys (%s): row selected <=> its key pair equals the pair of a selected row; left=%s right=%s dir=%d'
             % (kind, lv, rv, direction))


BASE = 2 ** 53


def body_mixed_single(env, shape='1-n', n=3):
    """single-key shapes on concrete key columns of *different* integer / float storage types, with integers beyond 2**53
    (where a conversion of the whole column to float64 would merge neighbouring keys); the selection is symbolic"""
    from glue.core import Data
    combos = [(np.int64, np.float64), (np.int64, np.uint64), (np.int64, np.int64), (np.int32, np.int64)]
    ta, tb = combos[env.choice('dtypes', len(combos))]
    big = ta == np.int64
    LV = [BASE, BASE + 1, 17, 2] if big else [40, 41, 17, 2]
    lv = [LV[env.choice('l%d' % i, len(LV))] for i in range(n)]
    r1 = [LV[1], 17, LV[1] + 299]                        # first key column of the other dataset (type ta)
    r2 = [17, 3, 2] if tb != np.float64 else [17.0, 3.5, 2.0]
    A = Data(label='A', k1=np.array(r1, dtype=ta), k2=np.array(r2, dtype=tb))
    B = Data(label='B', j1=np.array(lv, dtype=ta))
    if shape == '1-n':
        B.join_on_key(A, 'j1', ('k1', 'k2'))
    else:
        A.join_on_key(B, ('k1', 'k2'), 'j1')
    direction = env.choice('direction', 2)
    if direction == 0:
        target, source = B, A
    else:
        target, source = A, B
    st, sel = forked_selection(env, source, 'sel')
    if direction == 0:
        want = [any(bool(sel[j]) and (lv[i] == r1[j] or lv[i] == r2[j]) for j in range(3)) for i in range(n)]
    else:
        want = [any(bool(sel[i]) and (lv[i] == r1[j] or lv[i] == r2[j]) for i in range(n)) for j in range(3)]
    got = target.get_mask(st)
    env.same(got, np.array(want, dtype=bool), 'mixed key types (%s, %s/%s): row selected <=> its key equals a key of a selected row; '
             'left=%s right=%s,%s dir=%d' % (shape, ta.__name__, tb.__name__, lv, r1, r2, direction))


WIDE_RIGHT = [(i // 4, i % 4) for i in range(16)]


def body_tuple_wide(env, nleft=4):
    """n-n shape with many selected distinct key pairs on the other side and repeated key pairs on this side (array-size
    dependent code paths of the membership test)"""
    from glue.core import Data
    cand = [(9, 9), (0, 0), (3, 3), (7, 7)]              # not present / present and selectable / present and selected / not present
    lv = [cand[env.choice('l%d' % i, len(cand))] for i in range(nleft)]
    A = Data(label='A', k1=np.array([p[0] for p in WIDE_RIGHT], dtype=np.int64), k2=np.array([p[1] for p in WIDE_RIGHT], dtype=np.int64))
    B = Data(label='B', j1=np.array([p[0] for p in lv], dtype=np.int64), j2=np.array([p[1] for p in lv], dtype=np.int64))
    B.join_on_key(A, ('j1', 'j2'), ('k1', 'k2'))
    from glue.core.subset import SubsetState
    from glue.core.exceptions import IncompatibleAttribute
    free = [0, 1, 5, 10]                                  # rows of A whose membership the solver decides; the others are selected
    bits = {j: env.bool('sel[%d]' % j) for j in free}

    class Sel(SubsetState):
        def to_mask(self, data, view=None):
            if data is not A:
                raise IncompatibleAttribute()
            m = np.array([bool(bits[j]) if j in bits else True for j in range(len(WIDE_RIGHT))], dtype=bool)
            return m if view is None else m[view]

        def copy(self):
            return self
    selected = [bool(bits[j]) if j in bits else True for j in range(len(WIDE_RIGHT))]
    view = [None, slice(1, None)][env.choice('view', 2)]
    got = B.get_mask(Sel(), view=view)
    want = np.array([any(selected[j] and WIDE_RIGHT[j] == lv[i] for j in range(len(WIDE_RIGHT))) for i in range(nleft)], dtype=bool)
    env.same(got, want if view is None else want[view], 'tuple keys, 16 rows on the other side: left=%s selected=%s view=%r' % (lv, selected, view))


def body_chain(env, length=3, cyclic=False):
    """chains / cycles of joins: the selection travels through intermediate datasets; an unanswerable selection is reported
    incompatible (and leaves no trace: a following answerable request still works)"""
    from glue.core.exceptions import IncompatibleAttribute
    n = 2
    ds, keys = [], []
    for i in range(length):
        k_in = env.reals('d%d_in' % i, (n,))          # key towards the previous dataset
        k_out = env.reals('d%d_out' % i, (n,))        # key towards the next dataset
        ds.append(mk_data('D%d' % i, kin=k_in, kout=k_out))
        keys.append((k_in, k_out))
    for i in range(length - 1):
        ds[i].join_on_key(ds[i + 1], 'kout', 'kin')
    if cyclic:
        ds[-1].join_on_key(ds[0], 'kout', 'kin')
    outsider = mk_data('X', q=env.reals('q', (n,)))
    st_out, _ = opaque_selection(env, outsider, 'selx')
    order = env.choice('failed_request_first', 2)
    start = env.choice('ask_on', length)
    if order:
        try:
            ds[start].get_mask(st_out)
            env.true(False, 'a selection nobody can evaluate must be reported incompatible')
        except IncompatibleAttribute:
            pass
    # selection defined on the last dataset, asked on dataset `start`
    st, sel = opaque_selection(env, ds[-1], 'sel')
    cur = [sel[j] for j in range(n)]
    # propagate backwards along the chain (shortest way first in a cycle: start -> ... the code follows join order)
    path = list(range(length - 1, start, -1))
    if cyclic and start == 0 and length > 2:
        # D0 is joined to D1 (first) and to D_last (second): the code asks D1 first, which reaches D_last via the chain
        pass
    for i in path:
        # rows of D(i-1) whose kout equals kin of a selected row of D(i)
        prev = []
        for r in range(n):
            prev.append(any_match(env, keys[i - 1][1][r], keys[i][0], cur))
        cur = prev
    got = ds[start].get_mask(st)
    env.true(tuple(np.shape(got)) == (n,), 'answerable request terminates with a mask of the dataset shape')
    if not cyclic:
        # (in a cycle two routes exist and the property does not say which one is taken: only termination is claimed there)
        if env.symbolic:
            from vtools import symnp as sn
            want = sn.wrap(np.array(cur, dtype=object))
        else:
            want = np.array(cur, dtype=bool)
        env.same(got, want, 'selection propagated through %d joins (asked on D%d, failed request first=%d)'
                 % (length - 1 - start, start, order))
    if not order:
        try:
            ds[start].get_mask(st_out)
            env.true(False, 'a selection nobody can evaluate must be reported incompatible')
        except IncompatibleAttribute:
            pass
    for d in ds:
        env.true(not getattr(d, '_recursing', False), 'recursion guard released on %s' % d.label)


def _known_bytes():
    from glue.core import Data
    d1 = Data(a=np.array([1, 2, 3], dtype=np.int64), b=np.array([1, 1, 2], dtype=np.int64), v=[1., 2., 3.], label='d1')
    d2 = Data(c=np.array([1, 2, 9], dtype=np.int32), e=np.array([1, 1, 2], dtype=np.int32), label='d2')
    d2.join_on_key(d1, ('c', 'e'), ('a', 'b'))
    return d2.get_mask(d1.id['v'] > 0).tolist() != [True, True, False]


KNOWN_DEMOS = {'C11/tuple-keys-bytewise': _known_bytes}


def harnesses(tier):
    hs = []
    n = 3 if tier == 'quick' else 4
    for shape in ('1-1', '1-n', 'n-1'):
        hs.append(Harness('shape %s' % shape, body_shapes, params=dict(shape=shape, n=n, m=3), validate=25, weight=5, wall_s=1800,
                          max_paths=500000, bounds=dict(shape=shape, rows=(3, n), key_values='symbolic reals incl. NaN', views=len(VIEWS), directions=2)))
    for kind in ('int', 'float', 'str'):
        hs.append(Harness('tuple keys %s' % kind, body_tuple_keys, params=dict(kind=kind, n=2 if tier == 'quick' else 3, m=3), validate=25, weight=6,
                          wall_s=1800, max_paths=500000,
                          bounds=dict(shape='n-n', key_columns=2, left_rows=2 if tier == 'quick' else 3, right_rows=3, dtype=kind,
                                      note='same storage dtype on both sides'),
                          assumptions=['key columns of the tuple shape have the same dtype on both sides (mixed dtypes/widths are the recorded '
                                       'finding C11/tuple-keys-bytewise)']))
    for shape in ('1-n', 'n-1'):
        hs.append(Harness('mixed key types %s' % shape, body_mixed_single, params=dict(shape=shape, n=3), validate=25, weight=3, wall_s=1800,
                          max_paths=500000, bounds=dict(shape=shape, rows=3, dtypes=['int64/float64', 'int64/uint64', 'int64/int64', 'int32/int64'],
                                                        values='incl. integers beyond 2**53')))
    hs.append(Harness('tuple keys wide', body_tuple_wide, params=dict(nleft=4), validate=25, weight=3, wall_s=1800, max_paths=500000,
                      bounds=dict(shape='n-n', left_rows=4, right_rows=16, selected='12 fixed + 4 solver-chosen')))
    for length, cyc in ((2, False), (3, False), (3, True)) + (((4, False), (4, True)) if tier == 'thorough' else ()):
        hs.append(Harness('chain length=%d cyclic=%s' % (length, cyc), body_chain, params=dict(length=length, cyclic=cyc), validate=25,
                          weight=4, wall_s=1800, bounds=dict(datasets=length, cyclic=cyc, rows=2)))
    return hs
