"""C15 - World coordinates, their links and inverses agree with the coordinate object."""
import itertools
import numpy as np

from vtools.runner import Harness
from .common import mk_data, kf_active
from .c04 import index_full, view_repr

ID = 'C15'
LEVEL = 'other'
EXPLANATION = ('forward direction: the entries of the affine matrix are solver variables (the zero pattern is enumerated by the '
               'solver where the real code tests matrix != 0); CoordinateComponent._calculate, pixel2world_single_axis, the '
               'automatically created pixel->world links and AffineCoordinates run on them and z3 proves every world value '
               'equal to the affine map of the pixel grid for every view; inverse direction: listed matrices, symbolic '
               'positions: world->pixel undoes pixel->world within tolerance and the world->pixel links agree with the '
               'coordinate object')


def sym_inverse(M):
    """S-inv: inverse of a small symbolic matrix by cofactor expansion (exact rational terms); used in place of
    np.linalg.inv for symbolic matrices only"""
    from vtools import symcore as sc, symnp as sn
    A = np.asarray(sn.obj(M), dtype=object)
    n = A.shape[0]

    def det(B):
        k = B.shape[0]
        if k == 1:
            return B[0, 0]
        if k == 2:
            return B[0, 0] * B[1, 1] - B[0, 1] * B[1, 0]
        acc = None
        for j in range(k):
            minor = np.delete(np.delete(B, 0, axis=0), j, axis=1)
            term = B[0, j] * det(minor)
            term = term if j % 2 == 0 else -term
            acc = term if acc is None else acc + term
        return acc
    d = det(A)
    if n <= 3:
        sc.cur().assume(d != 0)       # (n - 1)-dimensional coordinates with n <= 3: exact invertibility
    out = np.empty((n, n), dtype=object)
    for i in range(n):
        for j in range(n):
            minor = np.delete(np.delete(A, j, axis=0), i, axis=1)
            c = det(minor) if n > 1 else sc.sreal(1.0)
            c = c if (i + j) % 2 == 0 else -c
            out[i, j] = c / d
    return sn.wrap(out)


def install_inv_stub():
    import glue.core.coordinates as gc
    from vtools import symnp as sn
    P = gc.np
    if getattr(P, '_verif_linalg', False):
        return

    class LinalgProxy:
        def __getattr__(self, name):
            return getattr(np.linalg, name)

        def inv(self, a):
            if sn.has_sym(a):
                sn.stub_hit('S-inv')
                return sym_inverse(a)
            return np.linalg.inv(a)
    type(P).linalg = LinalgProxy()
    type(P)._verif_linalg = True


def views_for(shape):
    nd = len(shape)
    if nd == 1:
        return [None, (slice(1, None),), (-1,), (slice(0, None, 2),), (np.array([0, shape[0] - 1]),)]
    vs = [None, (slice(1, None),), (slice(None), slice(1, None)), (slice(None), -1), (-1,), (-1, -2), (0, 1), (slice(0, None, 2), slice(-2, None)),
          tuple(np.array([0, n - 1, 0]) for n in shape)]
    if nd == 3:
        vs += [(slice(None), 1, slice(None)), (slice(None), slice(None), -1), (0, slice(None), slice(1, None))]
    return vs


def pixel_grids(shape):
    grids = np.meshgrid(*[np.arange(n, dtype=float) for n in shape], indexing='ij')
    return grids[::-1]          # coordinate order: x (last numpy axis) first


def body_forward(env, shape=(2, 3), restrict=None):
    """world attributes and pixel->world links for a symbolic affine matrix"""
    from glue.core.coordinates import AffineCoordinates
    from glue.core.component_link import CoordinateComponentLink
    if env.symbolic:
        install_inv_stub()
    nd = len(shape)
    m = [[env.real('m%d%d' % (k, j), lo=-4, hi=4) for j in range(nd)] for k in range(nd)]
    t = [env.real('t%d' % k, lo=-4, hi=4) for k in range(nd)]
    if kf_active('C15/asymmetric-correlation'):
        # recorded finding: only structurally symmetric patterns with a non-zero diagonal are handled correctly
        for i in range(nd):
            env.assume(m[i][i] != 0)
            for j in range(i + 1, nd):
                env.assume((m[i][j] == 0) == (m[j][i] == 0))
    if nd >= 3:
        # invertibility stated linearly (strict diagonal dominance) to keep the queries out of cubic arithmetic
        for i in range(nd):
            off = 0
            for j in range(nd):
                if j != i:
                    off = off + abs(m[i][j])
            env.assume(abs(m[i][i]) > off)
    rows = [m[k] + [t[k]] for k in range(nd)] + [[0.0] * nd + [1.0]]
    if env.symbolic:
        from vtools import symnp as sn
        M = sn.wrap(sn.obj(rows))
    else:
        M = np.array(rows, dtype=float)
        if np.linalg.det(M) == 0:
            env.assume(False)
    coords = AffineCoordinates(M)
    d = mk_data('d', coords=coords, x=np.zeros(shape))
    pix = pixel_grids(shape)

    def world_oracle(a):
        k = nd - 1 - a
        out = t[k] + 0 * pix[0]
        for j in range(nd):
            out = out + m[k][j] * pix[j]
        return out
    views = views_for(shape)
    view = views[env.choice('view', len(views))]
    for a in range(nd):
        want_full = world_oracle(a)
        try:
            want = index_full(want_full, view)
        except IndexError:
            env.assume(False)
            return
        got = d[d.world_component_ids[a], view]
        env.true(tuple(np.shape(got)) == tuple(np.shape(want)), 'shape of world axis %d, view %s' % (a, view_repr(view)))
        env.same(got, want, 'world axis %d equals the affine map of the pixel grid, view %s' % (a, view_repr(view)))
    # the automatically created pixel->world links compute the same values as the coordinate object
    direct = coords.pixel_to_world_values(*pix)
    direct = direct if isinstance(direct, tuple) else (direct,)
    for link in d.coordinate_links:
        if link.pixel2world:
            a = link.index
            val = link.compute(d)
            env.same(val, world_oracle(a), 'pixel->world link of world axis %d equals the affine map' % a)
            env.same(val, direct[nd - 1 - a], 'pixel->world link of world axis %d equals coords.pixel_to_world_values' % a)
    # values read through the derived machinery of another attribute
    d.add_component_link(d.world_component_ids[0] * 2, 'w2')
    env.same(d['w2'], world_oracle(0) * 2, 'attribute derived from a world attribute')


MATRICES = {
    1: {'1d': [[2.0, 1.0], [0.0, 1.0]], '1d-neg': [[-0.5, 3.0], [0.0, 1.0]]},
    2: {'diag': [[2.0, 0.0, 1.0], [0.0, 3.0, -1.0], [0.0, 0.0, 1.0]],
        'coupled': [[2.0, 0.5, 1.0], [0.25, 3.0, -1.0], [0.0, 0.0, 1.0]],
        'rot': [[0.6, -0.8, 2.0], [0.8, 0.6, 0.5], [0.0, 0.0, 1.0]],
        'perm': [[0.0, 2.0, 1.0], [3.0, 0.0, -1.0], [0.0, 0.0, 1.0]],
        'tri': [[2.0, 0.5, 1.0], [0.0, 3.0, -1.0], [0.0, 0.0, 1.0]]},
    3: {'diag': [[2.0, 0.0, 0.0, 1.0], [0.0, 3.0, 0.0, -1.0], [0.0, 0.0, 1.5, 0.25], [0.0, 0.0, 0.0, 1.0]],
        'block': [[2.0, 0.5, 0.0, 1.0], [0.25, 3.0, 0.0, -1.0], [0.0, 0.0, 1.5, 0.25], [0.0, 0.0, 0.0, 1.0]],
        'block2': [[2.0, 0.0, 0.0, 1.0], [0.0, 3.0, 0.5, -1.0], [0.0, -0.25, 1.5, 0.25], [0.0, 0.0, 0.0, 1.0]],
        'full': [[2.0, 0.5, 0.25, 1.0], [0.25, 3.0, -0.5, -1.0], [0.5, 1.0, 1.5, 0.25], [0.0, 0.0, 0.0, 1.0]],
        'cyc': [[0.0, 0.0, 2.0, 1.0], [3.0, 0.0, 0.0, -1.0], [0.0, 1.5, 0.0, 0.25], [0.0, 0.0, 0.0, 1.0]]},
}


def symmetric_pattern(M):
    A = np.array(M)[:-1, :-1] != 0
    return bool(np.all(A == A.T) and np.all(np.diag(A)))


def body_inverse(env, nd=2, npts=2, layout=None):
    """world->pixel undoes pixel->world for symbolic positions; the world->pixel links and the single-axis helpers
    agree with the coordinate object, whatever the broadcasting structure of their inputs"""
    from glue.core.coordinates import AffineCoordinates, IdentityCoordinates
    from glue.core.coordinate_helpers import pixel2world_single_axis, world2pixel_single_axis
    from glue.core.component_link import CoordinateComponentLink
    from glue.core.component_id import ComponentID
    names = sorted(MATRICES[nd]) + ['identity']
    name = names[env.choice('matrix', len(names))]
    if name == 'identity':
        coords = IdentityCoordinates(n_dim=nd)
        Mx = np.eye(nd + 1)
    else:
        Mx = np.array(MATRICES[nd][name])
        if not symmetric_pattern(Mx) and kf_active('C15/asymmetric-correlation'):
            env.assume(False)
        coords = AffineCoordinates(Mx)
    lay = env.choice('layout', 3) if layout is None else layout
    # symbolic pixel positions, as arrays in different layouts
    if env.symbolic:
        from vtools import symnp as sn
        mk = lambda v: sn.wrap(np.array(v, dtype=object))
    else:
        mk = lambda v: np.array(v, dtype=float)
    P = []
    for j in range(nd):
        vals = [env.real('p%d_%d' % (j, i), lo=-16, hi=16) for i in range(npts)]
        arr = mk(vals)
        if lay == 1:
            arr = arr.reshape((1, npts))
        P.append(arr)
    if lay == 2 and nd >= 2:
        # broadcast structure: axis 0 varies along rows only, the others along columns only
        P = [np.broadcast_to(P[0].reshape((npts, 1)), (npts, npts))] + [np.broadcast_to(p.reshape((1, npts)), (npts, npts)) for p in P[1:]]
    W = coords.pixel_to_world_values(*P)
    W = list(W) if isinstance(W, tuple) else [W]
    tol = 1e-9
    for k in range(nd):
        want = Mx[k, nd] + 0 * P[0]
        for j in range(nd):
            want = want + Mx[k, j] * P[j]
        env.close(W[k], np.broadcast_to(want, np.shape(W[k])), tol * 40, '%s: pixel_to_world_values axis %d' % (name, k))
        single = pixel2world_single_axis(coords, *P, world_axis=k)
        env.close(single, np.broadcast_to(want, np.shape(P[0])), tol * 40, '%s: pixel2world_single_axis %d (layout %d)' % (name, k, lay))
    back = coords.world_to_pixel_values(*W)
    back = list(back) if isinstance(back, tuple) else [back]
    for j in range(nd):
        env.close(back[j], np.broadcast_to(P[j], np.shape(back[j])), tol * 400, '%s: world_to_pixel undoes pixel_to_world (axis %d)' % (name, j))
        single = world2pixel_single_axis(coords, *W, pixel_axis=j)
        env.close(single, np.broadcast_to(P[j], np.shape(W[0])), tol * 400, '%s: world2pixel_single_axis %d (layout %d)' % (name, j, lay))
    # the link objects glue creates for a dataset with these coordinates (numpy axis order)
    wids = [ComponentID('w%d' % i) for i in range(nd)]
    pids = [ComponentID('p%d' % i) for i in range(nd)]
    for a in range(nd):
        l1 = CoordinateComponentLink(pids, wids[a], coords, a)
        args = [P[nd - 1 - f] for f in l1.from_needed]
        env.close(l1.using(*args), np.broadcast_to(W[nd - 1 - a], np.shape(args[0])), tol * 40,
                  '%s: pixel->world link function for numpy axis %d' % (name, a))
        l2 = CoordinateComponentLink(wids, pids[a], coords, a, pixel2world=False)
        args = [W[nd - 1 - f] for f in l2.from_needed]
        env.close(l2.using(*args), np.broadcast_to(P[nd - 1 - a], np.shape(args[0])), tol * 400,
                  '%s: world->pixel link function for numpy axis %d' % (name, a))


def _known_asymmetric():
    from glue.core import Data
    from glue.core.coordinates import AffineCoordinates
    M = np.array(MATRICES[2]['perm'])
    d = Data(x=np.zeros((2, 3)), coords=AffineCoordinates(M))
    got = d[d.world_component_ids[0]]
    want = M[1, 0] * pixel_grids((2, 3))[0] + M[1, 1] * pixel_grids((2, 3))[1] + M[1, 2]
    return not np.allclose(got, want)


KNOWN_DEMOS = {'C15/asymmetric-correlation': _known_asymmetric}


def harnesses(tier):
    hs = []
    if tier == 'quick':
        hs.append(Harness('forward (3,)', body_forward, params=dict(shape=(3,)), validate=20, bounds=dict(shape=(3,), matrix='symbolic')))
        hs.append(Harness('forward (2, 3)', body_forward, params=dict(shape=(2, 3)), validate=20, weight=9, wall_s=900,
                          bounds=dict(shape=(2, 3), matrix='symbolic 2x2 + translation, all zero patterns', views=len(views_for((2, 3))))))
        hs.append(Harness('forward (2, 2, 2)', body_forward, params=dict(shape=(2, 2, 2)), validate=10, weight=20, wall_s=900,
                          bounds=dict(shape=(2, 2, 2), matrix='symbolic 3x3 + translation, all zero patterns')))
        for nd in (1, 2, 3):
            for lay in (0, 1, 2):
                if nd == 1 and lay == 2:
                    continue
                hs.append(Harness('inverse %d-d layout %d' % (nd, lay), body_inverse, params=dict(nd=nd, npts=2, layout=lay), validate=20,
                                  weight=nd, bounds=dict(ndim=nd, matrices=sorted(MATRICES[nd]) + ['identity'], points=2, layout=lay)))
    else:
        hs.append(Harness('forward (4,)', body_forward, params=dict(shape=(4,)), validate=30, bounds=dict(shape=(4,), matrix='symbolic')))
        hs.append(Harness('forward (3, 3)', body_forward, params=dict(shape=(3, 3)), validate=30, weight=9, wall_s=3400,
                          bounds=dict(shape=(3, 3), matrix='symbolic 2x2 + translation, all zero patterns')))
        hs.append(Harness('forward (2, 2, 2)', body_forward, params=dict(shape=(2, 2, 2)), validate=30, weight=20, wall_s=3400,
                          max_paths=2000000, bounds=dict(shape=(2, 2, 2), matrix='symbolic 3x3 + translation, all zero patterns')))
        for nd in (1, 2, 3):
            for lay in (0, 1, 2):
                if nd == 1 and lay == 2:
                    continue
                hs.append(Harness('inverse %d-d layout %d' % (nd, lay), body_inverse, params=dict(nd=nd, npts=3, layout=lay), validate=30,
                                  weight=nd, wall_s=3400, bounds=dict(ndim=nd, points=3, layout=lay)))
    return hs
