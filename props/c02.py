"""C02 - A saved session restores to an observationally equivalent session (and C12(c): old protocol versions)."""
import json
import operator
import numpy as np

from vtools.runner import Harness
from .common import mk_data, kf_active

ID = 'C02'
LEVEL = 'other'
EXPLANATION = ('one session per selection / region / link / component / coordinate kind (found by introspection of glue.core, '
               'constructor recipes listed here) is saved with the real GlueSerializer (real json) and restored with the real '
               'GlueUnSerializer; the numeric payload of every dataset is symbolic (stub S-npy carries symbolic arrays across the '
               'base64/npy codec), so the masks of every subset on every dataset, all stored / derived / linked values and the '
               'key-join results of the restored session are SMT terms over the same variables and are proved equal to the '
               'original ones; labels, component order, styles and metadata are compared concretely; a second save/restore must '
               'give the same again')


# functions used by links must be importable by name to be serialisable
def double(x):
    return x * 2


def halve(x):
    return x / 2


def add3(x, y):
    return x + y * 3


# --------------------------------------------------------------------------- S-npy

_SYM_STORE = {}


def install_npy_stub():
    """S-npy: np.save/np.load + base64 replaced *for symbolic arrays only* by a pass-through (identity on contents
    and shape); concrete arrays keep the real codec"""
    from glue.core import state as gs
    from vtools import symnp as sn
    table = gs.GlueSerializer.dispatch._data[np.ndarray]
    ltable = gs.GlueUnSerializer.dispatch._data[np.ndarray]
    if getattr(table[1], '_verif', False):
        return
    real_save, real_load = table[1], ltable[1]

    def save(obj, context):
        if isinstance(obj, sn.SymArray) or sn.has_sym(obj):
            sn.stub_hit('S-npy')
            key = 'sym%d' % len(_SYM_STORE)
            _SYM_STORE[key] = obj
            return dict(data='__verif_symbolic__' + key)
        return real_save(obj, context)

    def load(rec, context):
        if isinstance(rec.get('data'), str) and rec['data'].startswith('__verif_symbolic__'):
            return _SYM_STORE[rec['data'][len('__verif_symbolic__'):]]
        return real_load(rec, context)
    save._verif = True
    table[1] = save
    ltable[1] = load


class LoudSaveFailure(Exception):
    pass


def roundtrip(obj):
    from glue.core.state import GlueSerializer, GlueUnSerializer
    try:
        txt = GlueSerializer(obj, include_data=True).dumps()
    except Exception as e:          # any exception while saving is a loud failure, which the property accepts
        raise LoudSaveFailure('%s: %s' % (type(e).__name__, e))
    json.loads(txt)
    return GlueUnSerializer.loads(txt).object('__main__'), txt


# --------------------------------------------------------------------------- session builders

def base_collection(env):
    """d1 (2,2) with numeric, categorical, derived attributes and affine coordinates; d2, d3 (3,) tables"""
    from glue.core import DataCollection
    from glue.core.coordinates import AffineCoordinates
    from glue.core.component import CategoricalComponent
    from .c04 import AFFINE
    x = env.reals('x', (2, 2), nan=True)
    y = env.reals('y', (2, 2))
    v = env.reals('v', (2, 2))
    d1 = mk_data('d1', coords=AffineCoordinates(AFFINE[2].copy()), x=x, y=y, v=v)
    d1.add_component(CategoricalComponent(np.array([['a', 'b'], ['c', 'a']])), 'cat')
    d1.add_component(CategoricalComponent(np.array([['b', 'b'], ['a', 'c']])), 'cat2')
    d1.add_component_link(d1.id['x'] * 2 + d1.id['y'], 'z')
    u = env.reals('u', (3,))
    w = env.reals('w', (3,))
    d2 = mk_data('d2', u=u, w=w)
    d2.add_component(CategoricalComponent(np.array(['a', 'b', 'c'])), 'tcat')
    d2.add_component(CategoricalComponent(np.array(['c', 'b', 'b'])), 'tcat2')
    p = env.reals('p', (3,))
    q = env.reals('q', (3,))
    d3 = mk_data('d3', p=p, q=q)
    dc = DataCollection([d1, d2, d3])
    return dc, d1, d2, d3


def selection_recipes(d1, d2=None):
    """name -> constructor of a selection on d1 (concrete parameters, asymmetric on purpose)"""
    from glue.core import subset as ss
    from glue.core import roi as R
    X, Y, V = d1.id['x'], d1.id['y'], d1.id['v']
    cat, cat2 = d1.id['cat'], d1.id['cat2']
    rec = {}
    rec['SubsetState'] = lambda: ss.SubsetState()
    rec['InequalitySubsetState'] = lambda: ss.InequalitySubsetState(X, 0.25, operator.gt)
    rec['InequalitySubsetState(cid,cid)'] = lambda: X <= Y
    rec['RangeSubsetState'] = lambda: ss.RangeSubsetState(-0.5, 1.25, att=Y)
    rec['MultiRangeSubsetState'] = lambda: ss.MultiRangeSubsetState([(-1.0, 0.0), (0.5, 2.0)], att=X)
    rec['AndState'] = lambda: (X > 0.25) & ss.RangeSubsetState(-0.5, 1.25, att=Y)
    rec['OrState'] = lambda: (X > 0.25) | (Y < -1.0)
    rec['XorState'] = lambda: (X > 0.25) ^ (Y < 0.5)
    rec['InvertState'] = lambda: ~ss.RangeSubsetState(-0.5, 1.25, att=Y)
    rec['MultiOrState'] = lambda: ss.MultiOrState([X > 1.0, Y < -1.0, ss.RangeSubsetState(0.0, 0.5, att=V)])
    rec['MaskSubsetState'] = lambda: ss.MaskSubsetState(np.array([[True, False], [False, True]]), d1.pixel_component_ids)
    rec['SliceSubsetState'] = lambda: ss.SliceSubsetState(d1, [slice(0, 1), slice(None)])
    rec['CategorySubsetState'] = lambda: ss.CategorySubsetState(cat, np.array([0, 2]))
    rec['ElementSubsetState'] = lambda: ss.ElementSubsetState(indices=[0, 2], data=d1)
    rec['ElementSubsetState(no data)'] = lambda: ss.ElementSubsetState(indices=[0, 2])
    rec['CategoricalROISubsetState'] = lambda: ss.CategoricalROISubsetState(att=cat, roi=R.CategoricalROI(['a', 'c']))
    if d2 is not None:
        # (these two selection kinds are defined for tables, i.e. 1-d datasets)
        rec['CategoricalROISubsetState2D'] = lambda: ss.CategoricalROISubsetState2D({'a': {'b', 'c'}, 'c': {'b'}}, d2.id['tcat'], d2.id['tcat2'])
        rec['CategoricalMultiRangeSubsetState'] = lambda: ss.CategoricalMultiRangeSubsetState(
            {'a': [(-1.0, 0.5)], 'b': [(0.0, 2.0), (3.0, 4.0)]}, d2.id['tcat'], d2.id['u'])
    rois = {
        'RectangularROI': lambda: R.RectangularROI(-0.5, 1.0, -1.0, 0.75),
        'RectangularROI(rotated)': lambda: R.RectangularROI(-0.5, 1.0, -1.0, 0.75, theta=0.4),
        'CircularROI': lambda: R.CircularROI(0.25, -0.25, 1.5),
        'EllipticalROI': lambda: R.EllipticalROI(0.25, -0.25, 1.5, 0.5),
        'EllipticalROI(rotated)': lambda: R.EllipticalROI(0.25, -0.25, 1.5, 0.5, theta=1.1),
        'CircularAnnulusROI': lambda: R.CircularAnnulusROI(0.25, -0.25, 0.5, 2.0),
        'PolygonalROI': lambda: R.PolygonalROI([-1.0, 1.5, 0.25], [-1.0, -0.5, 1.25]),
        'XRangeROI': lambda: R.XRangeROI(-0.5, 1.0),
        'YRangeROI': lambda: R.YRangeROI(-0.5, 1.0),
        'RangeROI': lambda: R.RangeROI('y', -0.25, 1.5),
        'PointROI': lambda: R.PointROI(0.5, 0.5),
    }
    for name, mk in rois.items():
        rec['RoiSubsetState[%s]' % name] = (lambda mk=mk: ss.RoiSubsetState(X, Y, mk()))
    rec['RoiSubsetStateNd'] = lambda: ss.RoiSubsetStateNd([X, Y], R.RectangularROI(-0.5, 1.0, -1.0, 0.75))
    rec['RoiSubsetState3d'] = lambda: ss.RoiSubsetState3d(X, Y, V, R.Projected3dROI(R.RectangularROI(-0.5, 1.0, -1.0, 0.75),
                                                                                    np.array([[1.0, 0.0, 0.5, 0.0], [0.0, 1.0, 0.0, 0.25],
                                                                                              [0.0, 0.0, 1.0, 0.0], [0.0, 0.0, 0.0, 1.0]])))
    return rec


UNCOVERED = {'FloodFillSubsetState': 'needs scipy.ndimage.label on the payload (compiled): symbolic payload impossible'}
SILENTLY_EMPTY = ('MultiRangeSubsetState', 'MultiOrState', 'RoiSubsetStateNd')


def introspect_selection_classes():
    from glue.core import subset as ss

    def allsub(c):
        out = set()
        for k in c.__subclasses__():
            out.add(k)
            out |= allsub(k)
        return out
    return sorted(k.__name__ for k in allsub(ss.SubsetState) if k.__module__.startswith('glue.core'))


def mask_or_incompatible(d, subset):
    from glue.core.exceptions import IncompatibleAttribute
    try:
        return subset.to_mask()
    except IncompatibleAttribute:
        return None


def compare_collections(env, a, b, tag, check_links=True):
    """observational equivalence of two data collections over the same symbolic payload"""
    from glue.core.exceptions import IncompatibleAttribute
    env.true([d.label for d in a] == [d.label for d in b], '%s: dataset labels' % tag)
    env.true(len(a.subset_groups) == len(b.subset_groups), '%s: number of subset groups' % tag)
    for da, db in zip(a, b):
        la = [c.label for c in da.components]
        lb = [c.label for c in db.components]
        env.true(la == lb, '%s: component order of %s: %s vs %s' % (tag, da.label, la, lb))
        env.true(tuple(da.shape) == tuple(db.shape), '%s: shape of %s' % (tag, da.label))
        env.true(type(da.coords) is type(db.coords), '%s: coordinates of %s' % (tag, da.label))
        for ca, cb in zip(da.components, db.components):
            if ca.label != cb.label:
                continue
            va, vb = da[ca], db[cb]
            if getattr(np.asarray(va), 'dtype', None) is not None and np.asarray(va).dtype.kind in 'US':
                env.true(bool(np.all(np.asarray(va) == np.asarray(vb))), '%s: categorical values of %s.%s' % (tag, da.label, ca.label))
            else:
                env.same(vb, va, '%s: values of %s.%s' % (tag, da.label, ca.label))
            env.true(da.get_component(ca).units == db.get_component(cb).units, '%s: units of %s.%s' % (tag, da.label, ca.label))
        for k in ('color', 'alpha', 'markersize', 'marker', 'linewidth', 'linestyle'):
            env.true(getattr(da.style, k) == getattr(db.style, k), '%s: style.%s of %s: %r vs %r' % (tag, k, da.label, getattr(da.style, k), getattr(db.style, k)))
        env.true(dict(da.meta) == dict(db.meta), '%s: metadata of %s' % (tag, da.label))
        env.true(len(da.subsets) == len(db.subsets), '%s: number of subsets of %s' % (tag, da.label))
        for sa, sb in zip(da.subsets, db.subsets):
            env.true(sa.label == sb.label, '%s: subset label on %s' % (tag, da.label))
            for k in ('color', 'alpha', 'markersize', 'linewidth'):
                env.true(getattr(sa.style, k) == getattr(sb.style, k), '%s: subset style.%s on %s' % (tag, k, da.label))
            ma, mb = mask_or_incompatible(da, sa), mask_or_incompatible(db, sb)
            if ma is None or mb is None:
                env.true(ma is None and mb is None, '%s: subset %r on %s is %s before and %s after' % (
                    tag, sa.label, da.label, 'incompatible' if ma is None else 'evaluable', 'incompatible' if mb is None else 'evaluable'))
            else:
                env.same(mb, ma, '%s: mask of subset %r on %s' % (tag, sa.label, da.label))
        # attributes of other datasets reachable through links / joins
        if check_links:
            for oa, ob in zip(a, b):
                if oa is da:
                    continue
                for ca, cb in zip(oa.main_components, ob.main_components):
                    try:
                        va = da[ca]
                    except IncompatibleAttribute:
                        va = None
                    try:
                        vb = db[cb]
                    except IncompatibleAttribute:
                        vb = None
                    if va is None or vb is None:
                        env.true(va is None and vb is None, '%s: %s.%s read from %s: %s before, %s after' % (
                            tag, oa.label, ca.label, da.label, 'unreachable' if va is None else 'reachable', 'unreachable' if vb is None else 'reachable'))
                    else:
                        env.same(vb, va, '%s: linked values %s.%s read from %s' % (tag, oa.label, ca.label, da.label))
    for ga, gb in zip(a.subset_groups, b.subset_groups):
        env.true(ga.label == gb.label, '%s: group label' % tag)
        env.true(type(ga.subset_state) is type(gb.subset_state), '%s: selection class of group %r: %s vs %s' % (
            tag, ga.label, type(ga.subset_state).__name__, type(gb.subset_state).__name__))


def body_selection(env, names=None, composite=False):
    if env.symbolic:
        install_npy_stub()
        from .c08 import install_path_stub
        install_path_stub()
    dc, d1, d2, d3 = base_collection(env)
    recs = selection_recipes(d1, d2)
    names = sorted(recs) if names is None else names
    name = names[env.choice('selection', len(names))]
    if name.split('[')[0].split('(')[0] in SILENTLY_EMPTY and kf_active('C02/selection-without-saver'):
        env.assume(False)
    state = recs[name]()
    if composite:
        # thorough tier: the selection combined with a second one (and a second group holding the partner alone)
        partners = [n for n in sorted(recs) if not (n.split('[')[0].split('(')[0] in SILENTLY_EMPTY and kf_active('C02/selection-without-saver'))]
        partners = partners[::max(1, len(partners) // 3)][:3]
        pname = partners[env.choice('partner', len(partners))]
        op = env.choice('operator', 4)
        other = recs[pname]()
        state = [state & other, state | other, state ^ other, ~state][op]
        name = '%s %s %s' % (name, ['&', '|', '^', '~ (partner in a second group)'][op], pname)
        dc.new_subset_group(label='partner', subset_state=recs[pname]())
    g = dc.new_subset_group(label='sel', subset_state=state)
    g.style.color = '#112233'
    g.style.alpha = 0.0 if (not composite and env.choice('alpha0', 2)) else 0.625
    d1.style.alpha = 0.0 if g.style.alpha == 0.0 else 0.375
    d1.style.markersize = 11
    d1.meta['origin'] = 'verif'
    try:
        dc2, txt = roundtrip(dc)
    except LoudSaveFailure as e:
        env.note('loud failure at save time: %r' % (e,))
        env.true(True, '%s: save fails loudly (accepted)' % name)
        return
    compare_collections(env, dc, dc2, 'selection %s' % name)
    dc3, txt2 = roundtrip(dc2)
    compare_collections(env, dc2, dc3, 'selection %s (second round trip)' % name)


LINKS = ['none', 'LinkSame', 'ComponentLink(function)', 'ComponentLink(two inputs)', 'LinkTwoWay', 'MultiLink', 'JoinLink', 'join_on_key (1-n)',
         'LinkSame + JoinLink', 'BinaryComponentLink derived + link from it']


def body_links(env):
    from glue.core.component_link import ComponentLink
    from glue.core import link_helpers as lh
    if env.symbolic:
        install_npy_stub()
    dc, d1, d2, d3 = base_collection(env)
    k = LINKS[env.choice('link', len(LINKS))]
    U, W, P, Q = d2.id['u'], d2.id['w'], d3.id['p'], d3.id['q']
    if k == 'LinkSame':
        dc.add_link(lh.LinkSame(U, P))
    elif k == 'ComponentLink(function)':
        dc.add_link(ComponentLink([U], P, using=double, inverse=halve))
    elif k == 'ComponentLink(two inputs)':
        dc.add_link(ComponentLink([U, W], Q, using=add3))
    elif k == 'LinkTwoWay':
        dc.add_link(lh.LinkTwoWay(U, P, double, halve))
    elif k == 'MultiLink':
        dc.add_link(lh.MultiLink(cids1=[U, W], cids2=[Q], forwards=add3, labels1=['u', 'w'], labels2=['q']))
    elif k == 'JoinLink':
        dc.add_link(lh.JoinLink(cids1=[U], cids2=[P], data1=d2, data2=d3))
    elif k == 'join_on_key (1-n)':
        d2.join_on_key(d3, 'u', ('p', 'q'))
    elif k == 'LinkSame + JoinLink':
        dc.add_link(lh.LinkSame(W, Q))
        dc.add_link(lh.JoinLink(cids1=[U], cids2=[P], data1=d2, data2=d3))
    elif k == 'BinaryComponentLink derived + link from it':
        d2.add_component_link(U * 2 - W, 'r')
        dc.add_link(ComponentLink([d2.id['r']], P, using=double))
    # selections that only one dataset can evaluate directly, to exercise links and joins
    g1 = dc.new_subset_group(label='on d3', subset_state=P > 0.25)
    g2 = dc.new_subset_group(label='on d2', subset_state=(U < 0.5) & (W > -1.0))
    try:
        dc2, txt = roundtrip(dc)
    except LoudSaveFailure as e:
        env.true(True, 'links %s: save fails loudly (accepted): %s' % (k, e))
        return
    compare_collections(env, dc, dc2, 'links %s' % k)
    env.true(len(dc2.external_links) == len(dc.external_links), 'links %s: number of registered links %d vs %d' % (k, len(dc.external_links), len(dc2.external_links)))
    for da, db in zip(dc, dc2):
        env.true(len(da._key_joins) == len(db._key_joins), 'links %s: key joins of %s' % (k, da.label))
    dc3, txt2 = roundtrip(dc2)
    compare_collections(env, dc2, dc3, 'links %s (second round trip)' % k)


COMPONENTS = ['plain', 'units', 'categorical custom order', 'datetime', 'derived of derived', 'identity coords', 'no coords', '3-d affine', '1-d']


def body_components(env):
    from glue.core import Data, DataCollection
    from glue.core.component import Component, CategoricalComponent, DateTimeComponent
    from glue.core.coordinates import IdentityCoordinates, AffineCoordinates
    from .c04 import AFFINE
    if env.symbolic:
        install_npy_stub()
    k = COMPONENTS[env.choice('kind', len(COMPONENTS))]
    if k == '3-d affine':
        shape = (2, 1, 2)
        coords = AffineCoordinates(AFFINE[3].copy(), units=['m', 's', 'K'], labels=['xx', 'yy', 'zz'])
    elif k == '1-d':
        shape, coords = (3,), AffineCoordinates(AFFINE[1].copy())
    elif k == 'identity coords':
        shape, coords = (2, 2), IdentityCoordinates(n_dim=2)
    elif k == 'no coords':
        shape, coords = (2, 2), None
    else:
        shape, coords = (2, 2), AffineCoordinates(AFFINE[2].copy())
    x = env.reals('x', shape, nan=True, inf=True)
    y = env.reals('y', shape)
    d = mk_data('d', coords=coords, x=x, y=y)
    if k == 'units':
        d.get_component(d.id['x']).units = 'km/s'
        d.get_component(d.id['y']).units = 'Jy'
    if k == 'categorical custom order':
        d.add_component(CategoricalComponent(np.array(['b', 'a', 'c', 'a'][:int(np.prod(shape))]).reshape(shape), categories=np.array(['c', 'a', 'b'])), 'cat')
    if k == 'datetime':
        d.add_component(DateTimeComponent(np.array(['2020-01-01', '2021-06-01', '2019-03-04', '2022-02-02'][:int(np.prod(shape))],
                                                   dtype='datetime64[D]').reshape(shape)), 'when')
    if k == 'derived of derived':
        d.add_component_link(d.id['x'] - d.id['y'], 'a')
        d.add_component_link(d.id['a'] * 3, 'b')
        d.add_component_link(d.id['b'] + d.pixel_component_ids[0], 'c')
    d.label = 'data with %s' % k
    d.style.color = '#abcdef'
    d.style.marker = 's'
    d.meta.update({'n': 3, 'name': 'x', 'nested': {'a': [1, 2]}})
    dc = DataCollection([d])
    g = dc.new_subset_group(label='g', subset_state=(d.id['x'] > 0.5) | (d.world_component_ids[0] > 1.0 if coords is not None else d.id['y'] > 0))
    dc2, txt = roundtrip(dc)
    compare_collections(env, dc, dc2, 'components %s' % k)
    d2 = dc2[0]
    if coords is not None:
        for wa, wb in zip(d.world_component_ids, d2.world_component_ids):
            env.same(d2[wb], d[wa], 'components %s: world coordinates' % k)
        env.true(list(d.coords.world_axis_units) == list(d2.coords.world_axis_units), 'components %s: coordinate units' % k)
    if k == 'categorical custom order':
        env.true(list(d2.get_component(d2.id['cat']).categories) == ['c', 'a', 'b'], 'custom category order restored')
        env.true(bool(np.all(d2.get_component(d2.id['cat']).codes == d.get_component(d.id['cat']).codes)), 'categorical codes restored')
    dc3, txt2 = roundtrip(dc2)
    compare_collections(env, dc2, dc3, 'components %s (second round trip)' % k)


# --------------------------------------------------------------------------- C12(c): old protocol versions

def roundtrip_with_versions(dc, data_version, dc_version):
    """save with the savers registered for the given protocol versions (record marked with that _protocol), load with
    the current loaders"""
    from glue.core import state as gs
    from glue.core.data import Data
    from glue.core.data_collection import DataCollection

    class OldSerializer(gs.GlueSerializer):
        def _dispatch(self, obj):
            if type(obj) is Data:
                return self.dispatch.get_version(Data, data_version), data_version
            if type(obj) is DataCollection:
                return self.dispatch.get_version(DataCollection, dc_version), dc_version
            return gs.GlueSerializer._dispatch(self, obj)
    txt = OldSerializer(dc, include_data=True).dumps()
    return gs.GlueUnSerializer.loads(txt).object('__main__')


def body_old_versions(env, data_version=1, dc_version=1):
    from glue.core import link_helpers as lh
    from glue.core.component_link import ComponentLink
    if env.symbolic:
        install_npy_stub()
    dc, d1, d2, d3 = base_collection(env)
    feature = env.choice('feature', 4)
    U, W, P, Q = d2.id['u'], d2.id['w'], d3.id['p'], d3.id['q']
    if feature == 1:
        dc.add_link(lh.LinkSame(U, P))
    elif feature == 2:
        dc.add_link(lh.LinkSame(U, P))
        dc.add_link(ComponentLink([U, Q], W, using=add3))          # inputs from two datasets, output in one of them
    elif feature == 3 and data_version >= 4:
        d2.join_on_key(d3, 'u', 'p')
    if dc_version >= 2:
        dc.new_subset_group(label='g', subset_state=(d1.id['x'] > 0.25) & (d1.id['y'] < 1.0))
        dc.new_subset_group(label='h', subset_state=P > 0.5)
    if data_version >= 2:
        d1.style.color = '#010203'
        d2.style.markersize = 9
    if kf_active('C12/internal-derived-lost-v1-3') and dc_version <= 3:
        # recorded finding: internal derived attributes are dropped by the DataCollection loaders of protocol 1-3
        d1.remove_component(d1.id['z'])
    dc2 = roundtrip_with_versions(dc, data_version, dc_version)
    tag = 'protocol Data v%d / DataCollection v%d, feature %d' % (data_version, dc_version, feature)
    compare_collections(env, dc, dc2, tag)
    env.true(len(dc2.external_links) == len(dc.external_links), '%s: number of links between datasets %d vs %d' % (tag, len(dc.external_links), len(dc2.external_links)))


def old_version_harnesses(tier):
    hs = []
    combos = [(1, 1), (2, 2), (3, 3), (4, 3), (5, 4), (4, 4), (5, 3)] if tier == 'quick' else [(a, b) for a in range(1, 6) for b in range(1, 5)]
    for dv, cv in combos:
        hs.append(Harness('old versions Data v%d DataCollection v%d' % (dv, cv), body_old_versions, params=dict(data_version=dv, dc_version=cv),
                          validate=4, weight=3, bounds=dict(data_protocol=dv, collection_protocol=cv, features=['none', 'LinkSame', 'two-dataset link', 'key join'])))
    return hs


def _known_no_saver():
    from glue.core import Data, DataCollection
    from glue.core.subset import MultiRangeSubsetState
    d = Data(x=[1., 2., 3., 4.], label='d')
    dc = DataCollection([d])
    dc.new_subset_group(subset_state=MultiRangeSubsetState([(0, 1.5), (3.5, 5)], d.id['x']))
    before = d.subsets[0].to_mask().tolist()
    dc2, _ = roundtrip(dc)
    return dc2[0].subsets[0].to_mask().tolist() != before


KNOWN_DEMOS = {'C02/selection-without-saver': _known_no_saver}


def harnesses(tier):
    hs = []
    names = None
    # one harness per group of selection recipes (parallel); the recipe names are read at run time
    groups = 12
    for i in range(groups):
        hs.append(Harness('selections #%d/%d' % (i, groups), _sel_body(i, groups), validate=4, weight=5, wall_s=1800,
                          bounds=dict(selection_recipes='every %dth of the recipe table (all SubsetState / Roi classes of glue.core)' % groups,
                                      payload='symbolic (2,2) and (3,) arrays', uncovered=UNCOVERED)))
    QC = ['SliceSubsetState', 'ElementSubsetState', 'MaskSubsetState', 'CategorySubsetState', 'RoiSubsetState[PolygonalROI]', 'RangeSubsetState']
    if tier == 'quick':
        def body_qc(env):
            return body_selection(env, names=QC, composite=True)
        hs.append(Harness('composite selections (6 recipes)', body_qc, validate=4, weight=8, wall_s=1800,
                          bounds=dict(selection_recipes=QC, combined='&, |, ^, ~ with one of 3 partner recipes', groups=2)))
    if tier == 'thorough':
        for i in range(groups):
            hs.append(Harness('composite selections #%d/%d' % (i, groups), _sel_body(i, groups, composite=True), validate=4, weight=8, wall_s=3000,
                              bounds=dict(selection_recipes='every %dth recipe combined (&, |, ^, ~) with one of 3 partner recipes' % groups,
                                          payload='symbolic (2,2) and (3,) arrays', groups=2)))
    hs.append(Harness('links', body_links, validate=4, weight=6, wall_s=1800, bounds=dict(link_kinds=LINKS)))
    hs.append(Harness('components and coordinates', body_components, validate=4, weight=5, wall_s=1800, bounds=dict(kinds=COMPONENTS)))
    return hs


def _sel_body(i, groups, composite=False):
    def body(env):
        from glue.core import Data
        probe = Data(x=np.zeros((2, 2)), y=np.zeros((2, 2)), v=np.zeros((2, 2)), label='probe')
        from glue.core.component import CategoricalComponent
        probe.add_component(CategoricalComponent(np.array([['a', 'b'], ['c', 'a']])), 'cat')
        probe.add_component(CategoricalComponent(np.array([['b', 'b'], ['a', 'c']])), 'cat2')
        probe2 = Data(u=np.zeros(3), label='probe2')
        probe2.add_component(CategoricalComponent(np.array(['a', 'b', 'c'])), 'tcat')
        probe2.add_component(CategoricalComponent(np.array(['c', 'b', 'b'])), 'tcat2')
        names = sorted(selection_recipes(probe, probe2))[i::groups]
        return body_selection(env, names=names, composite=composite)
    body.__name__ = 'body_selection_%d%s' % (i, '_composite' if composite else '')
    return body
