"""C14 - Derived attributes compute their defining expression and go with their inputs."""
import operator
import numpy as np

from vtools.runner import Harness
from .common import mk_data, kf_active
from .c04 import AFFINE, index_full, view_repr

ID = 'C14'
LEVEL = 'other'
EXPLANATION = ('expression trees over + - * / ** (built with the real ComponentID operators, as user-function links and as '
               'parsed text commands) are evaluated through the real link machinery on arrays of SMT terms for a family of '
               'views; z3 proves the result equal to the expression applied elementwise to the inputs; dependency removal '
               'and identifier replacement are checked over all solver-enumerated dependency DAGs')

OPS = [('+', operator.add), ('-', operator.sub), ('*', operator.mul), ('/', operator.truediv)]
LEAVES = ['x', 'y', 'pixel', 'world', 'derived', 'const']


def views_for(shape):
    nd = len(shape)
    if nd == 1:
        return [None, (slice(1, None),), (slice(0, None, 2),), (0,), np.arange(shape[0]) % 2 == 0]
    vs = [None, Ellipsis, (slice(1, None),), (slice(None), slice(1, None)), (slice(None), slice(0, None, 2)), (0,), (slice(None), -1),
          (1, 2 if shape[1] > 2 else 1), (slice(-1, None), slice(-2, None)),
          tuple(np.array([0, n - 1]) for n in shape)]
    m = np.zeros(shape, dtype=bool)
    m.flat[::2] = True
    vs.append(m)
    return vs


def world_oracle(shape, axis):
    """values of world_component_ids[axis] under AFFINE[ndim] computed directly"""
    nd = len(shape)
    M = AFFINE[nd]
    grids = np.meshgrid(*[np.arange(n, dtype=float) for n in shape], indexing='ij')
    pix = grids[::-1]                      # x (last numpy axis) first
    k = nd - 1 - axis                      # world axis index in the matrix
    out = np.zeros(shape)
    for j in range(nd):
        out = out + M[k, j] * pix[j]
    return out + M[k, nd]


def build(env, shape):
    from glue.core.coordinates import AffineCoordinates
    x = env.reals('x', shape, lo=-8, hi=8)
    y = env.reals('y', shape, lo=-8, hi=8)
    d = mk_data('d', coords=AffineCoordinates(AFFINE[len(shape)]), x=x, y=y)
    d.add_component_link(d.id['x'] * 2 + d.id['y'], 'z')
    return d, x, y


def leaf(env, kind, d, x, y, shape, tag):
    nd = len(shape)
    if kind == 'x':
        return d.id['x'], x
    if kind == 'y':
        return d.id['y'], y
    if kind == 'pixel':
        a = nd - 1
        pix = np.broadcast_to(np.arange(shape[a], dtype=float).reshape((1,) * a + (-1,)), shape)
        return d.pixel_component_ids[a], pix
    if kind == 'world':
        return d.world_component_ids[0], world_oracle(shape, 0)
    if kind == 'derived':
        return d.id['z'], x * 2 + y
    if kind == 'const':
        c = env.real('c' + tag, lo=-4, hi=4)
        return c, c
    raise ValueError(kind)


def apply_op(env, k, a, b, oa, ob, nonconst):
    name, f = OPS[k]
    if name == '/':
        # keep clear of division by zero (the sign of zero is not modelled)
        env.assume(np.all(ob != 0) if not env.symbolic else _all_nonzero(ob))
    return f(a, b), f(oa, ob)


def _all_nonzero(v):
    from vtools import symcore as sc, symnp as sn
    if isinstance(v, sc.Sym):
        return v != 0
    arr = np.asarray(sn.obj(v), dtype=object)
    t = sc.And_(*[(sc.sreal(sc.lift(e)) != 0).t for e in arr.ravel()])
    return sc.SymBool(t)


def body_arith(env, shape=(2, 3), leaves=(('x', 'pixel', 'world', 'derived'), ('y', 'const', 'pixel'), ('x', 'const', 'derived')),
               views=None, fixed=None, op1s=None, vsel=None):
    """((L1 op1 L2) op2 L3) [** 2] built with the real ComponentID / ComponentLink operators"""
    from glue.core.component_link import ComponentLink
    d, x, y = build(env, shape)
    ks = [leaves[i][env.choice('leaf%d' % i, len(leaves[i]))] for i in range(3)]
    if ks[0] == 'const' and ks[1] == 'const':
        env.assume(False)
    (a, oa), (b, ob), (c, oc) = [leaf(env, k, d, x, y, shape, str(i)) for i, k in enumerate(ks)]
    o1 = env.choice('op1', len(OPS)) if op1s is None else op1s[env.choice('op1', len(op1s))]
    o2 = env.choice('op2', len(OPS))
    if ks[0] == 'const':      # a ComponentID must be on one side for the operator overloads to build a link
        a, b, oa, ob = b, a, ob, oa
    inner, oinner = apply_op(env, o1, a, b, oa, ob, True)
    form = env.choice('form', 3)
    if form == 0:
        expr, oexpr = apply_op(env, o2, inner, c, oinner, oc, True)
    elif form == 1:
        if ks[2] == 'const':
            env.assume(False)
        expr, oexpr = apply_op(env, o2, c, inner, oc, oinner, True)       # link on the right-hand side
    else:
        expr, oexpr = inner ** 2, oinner * oinner
    env.true(isinstance(expr, ComponentLink), 'operators build a link')
    d.add_component_link(expr, 'r')
    if views is None:
        views = views_for(shape)
    if vsel is not None:
        views = views[vsel[0]::vsel[1]]
    view = views[env.choice('view', len(views))]
    want_full = np.broadcast_to(oexpr, shape)
    try:
        want = index_full(want_full, view)
    except IndexError:
        env.assume(False)
        return
    got = d['r', view]
    tag = '(%s %s %s) form %d op2 %s %s, view %s' % (ks[0], OPS[o1][0], ks[1], form, OPS[o2][0], ks[2], view_repr(view))
    env.true(tuple(np.shape(got)) == tuple(np.shape(want)), 'shape: ' + tag)
    env.same(got, want, 'derived values: ' + tag)
    env.same(d['r'], want_full, 'derived values on the whole dataset: ' + tag)
    # the link evaluated directly (without being registered) gives the same
    env.same(expr.compute(d, view), want, 'link.compute: ' + tag)


def f_full(a, b):
    return a * b + 1


def f_ravel(a, b):
    return (a * b + 1).ravel()


def f_first_only(a):
    return a - 3


def body_userfunc(env, shape=(2, 3)):
    """user-function links, incl. functions that return ravelled results, nested in arithmetic"""
    from glue.core.component_link import ComponentLink
    from glue.core.component_id import ComponentID
    d, x, y = build(env, shape)
    nd = len(shape)
    kind = env.choice('kind', 5)
    pixc = d.pixel_component_ids[nd - 1]
    pix = np.broadcast_to(np.arange(shape[nd - 1], dtype=float).reshape((1,) * (nd - 1) + (-1,)), shape)
    to = ComponentID('r')
    if kind == 0:
        link, want_full = ComponentLink([d.id['x'], d.id['y']], to, using=f_full), x * y + 1
    elif kind == 1:
        link, want_full = ComponentLink([d.id['x'], d.id['y']], to, using=f_ravel), x * y + 1
    elif kind == 2:
        link, want_full = ComponentLink([d.id['x'], pixc], to, using=f_full), x * pix + 1
    elif kind == 3:
        link, want_full = ComponentLink([pixc], to, using=f_first_only), pix - 3        # fully broadcast input
    else:
        inner = ComponentLink([d.id['x']], ComponentID('tmp'), using=f_first_only)       # user link as *left* operand
        link, want_full = inner + d.id['y'], (x - 3) + y
        link.set_to_id(to)
    d.add_component_link(link, to)
    views = views_for(shape)
    view = views[env.choice('view', len(views))]
    try:
        want = index_full(np.broadcast_to(want_full, shape), view)
    except IndexError:
        env.assume(False)
        return
    got = d[to, view]
    tag = 'user function kind %d, view %s' % (kind, view_repr(view))
    env.true(tuple(np.shape(got)) == tuple(np.shape(want)), 'shape: ' + tag)
    env.same(got, want, 'values: ' + tag)


PARSED = [('{x} * 2 + {y} - {p}', lambda x, y, p, z: x * 2 + y - p),
          ('({x} - {y}) * {z}', lambda x, y, p, z: (x - y) * z),
          ('{y} / 4 + {x} ** 2', lambda x, y, p, z: y / 4 + x * x),
          ('{ x } + { y }', lambda x, y, p, z: x + y)]


def body_parsed(env, shape=(2, 3)):
    from glue.core.parse import ParsedCommand, ParsedComponentLink
    from glue.core.component_id import ComponentID
    d, x, y = build(env, shape)
    nd = len(shape)
    pixc = d.pixel_component_ids[nd - 1]
    pix = np.broadcast_to(np.arange(shape[nd - 1], dtype=float).reshape((1,) * (nd - 1) + (-1,)), shape)
    refs = {'x': d.id['x'], 'y': d.id['y'], 'p': pixc, 'z': d.id['z']}
    k = env.choice('cmd', len(PARSED))
    cmd, f = PARSED[k]
    to = ComponentID('r')
    d.add_component_link(ParsedComponentLink(to, ParsedCommand(cmd, refs)), to)
    want_full = f(x, y, pix, x * 2 + y)
    nested = env.choice('nested', 2)
    if nested:
        # a parsed attribute that refers to another parsed attribute, with a further tag after the nested reference
        to2 = ComponentID('r2')
        d.add_component_link(ParsedComponentLink(to2, ParsedCommand('{r} / 2 + {x}', {'r': to, 'x': d.id['x']})), to2)
        want_full = want_full / 2 + x
        to = to2
    views = views_for(shape)
    view = views[env.choice('view', len(views))]
    try:
        want = index_full(np.broadcast_to(want_full, shape), view)
    except IndexError:
        env.assume(False)
        return
    got = d[to, view]
    tag = 'parsed %r nested=%d, view %s' % (cmd, nested, view_repr(view))
    env.true(tuple(np.shape(got)) == tuple(np.shape(want)), 'shape: ' + tag)
    env.same(got, want, 'values: ' + tag)


def body_removal(env, n_derived=3, on_hub=True, share=None, action=None, preludes=(0, 1, 2)):
    """all dependency DAGs of n_derived derived attributes over two stored ones (optionally stored out of dependency
    order: after reorder_components or after redefining a derived attribute in place): removing an attribute removes
    exactly its transitive dependants, survivors keep order and values; update_id keeps values and order"""
    from glue.core import DataCollection
    from glue.core.component_id import ComponentID
    from glue.core.hub import HubListener
    from glue.core import message as msg
    shape = (3,)
    x = env.reals('x', shape)
    y = env.reals('y', shape)
    d = mk_data('d', x=x, y=y)
    log = []
    if on_hub:
        dc = DataCollection([d])

        class L(HubListener):
            def notify(self, m):
                pass
        lis = L()
        dc.hub.subscribe(lis, msg.DataRemoveComponentMessage, handler=lambda m: log.append(m.component_id))
    names = ['x', 'y']
    expr = {}                                    # name -> (kind, a, b): the defining expression
    share = env.choice('shared_left_operand', 2) if share is None else share
    shared_link = d.id['x'] + 1                  # a link *object* that may serve as left operand of several attributes
    for k in range(n_derived):
        nm = 'd%d' % k
        i = env.choice('in%d_a' % k, len(names))
        j = env.choice('in%d_b' % k, len(names))
        a, b = names[i], names[j]
        if share and k < 2:
            link = shared_link * d.id[b]
            expr[nm] = ('shared', 'x', b)
        else:
            link = d.id[a] - d.id[b] * 2
            expr[nm] = ('sub', a, b)
        d.add_component_link(link, nm)
        names.append(nm)

    def deps_of(n, seen=()):
        if n not in expr:
            return set()
        out = set()
        for m in expr[n][1:]:
            if m is not None:
                out |= {m} | deps_of(m)
        return out

    # --- optionally bring the stored order out of dependency order
    prelude = preludes[env.choice('prelude', len(preludes))]
    last = 'd%d' % (n_derived - 1)
    if prelude == 1:
        comps = list(d.components)
        der = [c for c in comps if c.label in expr]
        rest = [c for c in comps if c.label not in expr]
        d.reorder_components(rest + der[::-1])
    elif prelude == 2:
        # redefine d0 in place (same identifier, same position) so that it depends on the last derived attribute
        if n_derived < 2 or 'd0' in deps_of(last):
            env.assume(False)
        d.add_component(d.id[last] + 1, d.id['d0'])
        expr['d0'] = ('inc', last, None)
    if on_hub:
        del log[:]

    def value(n):
        if n == 'x':
            return x
        if n == 'y':
            return y
        kind, a, b = expr[n]
        if kind == 'shared':
            return (x + 1) * value(b)
        if kind == 'sub':
            return value(a) - value(b) * 2
        return value(a) + 1
    vals = {n: value(n) for n in names}
    deps = {n: deps_of(n) for n in names}
    before = [c.label for c in d.components if c.label in names]
    if prelude == 0:
        env.true(before == names, 'attributes are listed in the order they were added')
    if prelude:
        for n in names[2:]:
            env.same(d[n], vals[n], 'attribute %s computes its defining expression (prelude %d)' % (n, prelude))
    action = env.choice('action', 2) if action is None else action
    victim = names[env.choice('victim', len(names))]
    if action == 0:
        d.remove_component(d.id[victim])
        gone = {victim} | {n for n in names if victim in deps[n]}
        after = [c.label for c in d.components if c.label in names]
        env.true(after == [n for n in before if n not in gone],
                 'after removing %s (prelude %d) the remaining attributes are exactly the non-dependants, in the old order: %s vs %s'
                 % (victim, prelude, after, [n for n in before if n not in gone]))
        for n in after:
            if not (gone & deps[n]):
                env.same(d[n], vals[n], 'survivor %s keeps its values after removing %s' % (n, victim))
        if on_hub:
            env.true(sorted(c.label for c in log) == sorted(gone), 'every removed attribute announced exactly once: %s vs %s'
                     % (sorted(c.label for c in log), sorted(gone)))
    else:
        if any(victim in deps[n] for n in names) and kf_active('C14/update-id-dependants'):
            env.assume(False)       # recorded finding: derived attributes keep referring to the replaced identifier
        new = ComponentID('renamed')
        d.update_id(d.id[victim], new)
        after = [c.label for c in d.components if c.label in names or c is new]
        env.true(after == [('renamed' if n == victim else n) for n in before], 'update_id keeps the order')
        env.same(d[new], vals[victim], 'update_id keeps the values of the re-identified attribute')
        for n in names:
            if n != victim:
                env.same(d[n], vals[n], 'update_id keeps the values of %s' % n)


def _known_update_id():
    from glue.core import Data
    from glue.core.component_id import ComponentID
    d = Data(x=[1., 2., 3.])
    d.add_component_link(d.id['x'] * 2, 'z')
    d.update_id(d.id['x'], ComponentID('renamed'))
    try:
        d['z']
    except Exception:
        return True
    return False


KNOWN_DEMOS = {'C14/update-id-dependants': _known_update_id}


def harnesses(tier):
    hs = []
    if tier == 'quick':
        shape = (2, 3)
        two_views = [None, (slice(None), slice(0, None, 2))]
        for o1 in range(len(OPS)):
            hs.append(Harness('arith %s trees op1=%s' % (shape, OPS[o1][0]), body_arith, params=dict(shape=shape, views=two_views, op1s=[o1]),
                              validate=20, weight=5, max_paths=300000, wall_s=900,
                              bounds=dict(shape=shape, leaves='4x3x3 kinds', ops=[o[0] for o in OPS] + ['**2'], depth=2, views=2)))
        hs.append(Harness('arith %s views' % (shape,), body_arith,
                          params=dict(shape=shape, leaves=(('x', 'world'), ('pixel',), ('derived', 'const')), op1s=[0, 2]),
                          validate=20, weight=4, max_paths=300000, wall_s=900,
                          bounds=dict(shape=shape, trees='2x1x2 leaf kinds, 2x4 ops, 3 forms', views=len(views_for(shape)))))
        hs.append(Harness('userfunc %s' % (shape,), body_userfunc, params=dict(shape=shape), validate=20, bounds=dict(shape=shape)))
        hs.append(Harness('parsed %s' % (shape,), body_parsed, params=dict(shape=shape), validate=20,
                          bounds=dict(shape=shape, commands=[c for c, _ in PARSED])))
        for sh in (0, 1):
            for pre in (0, 1, 2):
                hs.append(Harness('removal n=3 shared=%d remove prelude=%d' % (sh, pre), body_removal,
                                  params=dict(n_derived=3, share=sh, action=0, preludes=(pre,)), validate=20, weight=4,
                                  bounds=dict(stored=2, derived=3, action='remove', shared_left_operand=bool(sh),
                                              prelude=['none', 'derived attributes reordered', 'd0 redefined in place'][pre])))
            hs.append(Harness('removal n=3 shared=%d update_id' % sh, body_removal,
                              params=dict(n_derived=3, share=sh, action=1, preludes=(0,)), validate=20, weight=4,
                              bounds=dict(stored=2, derived=3, action='update_id', shared_left_operand=bool(sh))))
    else:
        for shape in [(2, 3), (4,), (2, 2, 2)]:
            nsplit = len(views_for(shape))
            for i in range(nsplit):
                hs.append(Harness('arith %s views#%d/%d' % (shape, i, nsplit), body_arith, params=dict(shape=shape, vsel=(i, nsplit)),
                                  validate=30, weight=5, max_paths=1000000, wall_s=3400,
                                  bounds=dict(shape=shape, depth=2, view=view_repr(views_for(shape)[i]))))
            hs.append(Harness('userfunc %s' % (shape,), body_userfunc, params=dict(shape=shape), validate=30, bounds=dict(shape=shape)))
            hs.append(Harness('parsed %s' % (shape,), body_parsed, params=dict(shape=shape), validate=30, bounds=dict(shape=shape)))
        for sh in (0, 1):
            for pre in (0, 1, 2):
                for ac in (0, 1):
                    if sh == 1 and pre != 0:
                        continue          # (shared operand objects with reordered storage: covered for n=3 in the quick tier)
                    hs.append(Harness('removal n=4 shared=%d %s prelude=%d' % (sh, ['remove', 'update_id'][ac], pre), body_removal,
                                      params=dict(n_derived=4, share=sh, action=ac, preludes=(pre,)), validate=30, weight=9, wall_s=3400,
                                      max_paths=1000000, bounds=dict(stored=2, derived=4, action=['remove', 'update_id'][ac],
                                                                     shared_left_operand=bool(sh), prelude=pre)))
        hs.append(Harness('removal n=3 off hub', body_removal, params=dict(n_derived=3, on_hub=False, preludes=(0, 1)), validate=30,
                          wall_s=3400, max_paths=1000000, bounds=dict(stored=2, derived=3, on_hub=False)))
    return hs
