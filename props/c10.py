"""C10 - Statistics and histograms equal their definition regardless of chunking or views."""
import warnings
import fractions
import numpy as np

from vtools.runner import Harness
from .common import mk_data, kf_active

ID = 'C10'
LEVEL = 'other'
EXPLANATION = ('the real Data.compute_statistic / compute_histogram (mask bounding box, sub-array extraction, view '
               'recombination, chunk loop, NaN padding, range sorting, keep filters) are executed on symbolic values, '
               'symbolic masks and symbolic range ends; z3 proves the result equal to the textbook NaN-aware definition '
               'over the full array for every value; the compiled fast_histogram kernels are replaced by their '
               'arithmetic definition (stub S-hist)')

STATS = ['minimum', 'maximum', 'mean', 'median', 'sum', 'percentile']


def axes_for(nd):
    out = [None]
    for a in range(nd):
        out += [a, (a,)]
    if nd >= 2:
        import itertools
        for k in range(2, nd + 1):
            out += list(itertools.combinations(range(nd), k))
    return out


def views_for(shape):
    nd = len(shape)
    vs = [None]
    if nd == 1:
        vs += [(slice(1, None),), (slice(-2, None),), (slice(0, None, 2),), (slice(0, 2),)]
    else:
        vs += [(slice(1, None),), (slice(None), slice(1, None)), (slice(-1, None), slice(-2, None)), (slice(None), slice(0, None, 2)),
               (0,), (slice(None), 1), (slice(None), shape[-1] - 1), (slice(0, 1), slice(0, 2))]
        if nd == 3:
            vs += [(slice(None), slice(None), slice(1, None)), (slice(None), 0, slice(None))]
    return vs


def nan_like(env):
    return float('nan')


def oracle_statistic(env, stat, vals, keep, axis, q, plain=False):
    """textbook NaN-aware statistic of vals where keep (both arrays of the viewed shape)"""
    arr = np.where(keep, vals, np.nan)
    if plain:
        f = {'minimum': np.min, 'maximum': np.max, 'mean': np.mean, 'median': np.median, 'sum': np.sum,
             'percentile': lambda a, axis=None: np.percentile(a, q, axis=axis)}[stat]
        if np.size(arr) == 0:
            return np.nan
        return f(arr, axis=axis)
    if np.size(arr) == 0 and axis is None:
        return np.nan
    with warnings.catch_warnings():
        warnings.simplefilter('ignore')
        if stat == 'sum':
            r = np.nansum(arr, axis=axis)
            n = np.sum(~np.isnan(arr), axis=axis)
            return np.where(n == 0, np.nan, r) if np.ndim(r) else (np.nan if _is_zero(env, n) else r)
        f = {'minimum': np.nanmin, 'maximum': np.nanmax, 'mean': np.nanmean, 'median': np.nanmedian,
             'percentile': lambda a, axis=None: np.nanpercentile(a, q, axis=axis)}[stat]
        return f(arr, axis=axis)


def _is_zero(env, n):
    if env.symbolic:
        from vtools import symcore as sc
        if isinstance(n, sc.Sym):
            return bool(n == 0)
    return n == 0


SUBSETS = ['none', 'mask', 'range', 'slice', 'pixel', 'empty']


def body_statistic(env, shape=(2, 3), stats=STATS, subsets=SUBSETS, finite=True, views=None, with_inf=True, positives=(False, True),
                   qs=(0, 25, 50, 100)):
    from glue.core import subset as ss
    x = env.reals('x', shape, nan=finite, inf=with_inf)
    d = mk_data('d', x=x, y=env.reals('y', shape))
    nd = len(shape)
    stat = stats[env.choice('stat', len(stats))]
    q = qs[env.choice('q', len(qs))] if stat == 'percentile' else None
    axs = axes_for(nd)
    axis = axs[env.choice('axis', len(axs))]
    vlist = views if views is not None else views_for(shape)
    view = vlist[env.choice('view', len(vlist))]
    positive = bool(positives[env.choice('positive', len(positives))])
    sub = subsets[env.choice('subset', len(subsets))]
    full_mask = None
    if sub == 'none':
        st = None
    elif sub == 'mask':
        full_mask = env.bools('m', shape)
        st = ss.MaskSubsetState(full_mask, d.pixel_component_ids)
    elif sub == 'range':
        lo = env.real('lo')
        y = d['y']
        st = ss.RangeSubsetState(lo, lo + 2, att=d.id['y'])
        full_mask = (y >= lo) & (y <= lo + 2)
    elif sub == 'slice':
        sl = [slice(1, None)] + [slice(None)] * (nd - 1) if nd > 1 else [slice(1, 3)]
        st = ss.SliceSubsetState(d, sl)
        full_mask = np.zeros(shape, dtype=bool)
        full_mask[tuple(sl)] = True
    elif sub == 'slice2':
        # a slice that stops before the end of the last axis (integer view entries equal to the stop are outside)
        sl = [slice(None)] * (nd - 1) + [slice(0, shape[-1] - 1)]
        st = ss.SliceSubsetState(d, sl)
        full_mask = np.zeros(shape, dtype=bool)
        full_mask[tuple(sl)] = True
    elif sub == 'pixel':
        t = env.real('t', lo=-1, hi=4)
        st = d.pixel_component_ids[nd - 1] >= t
        pix = np.broadcast_to(np.arange(shape[nd - 1]).reshape((1,) * (nd - 1) + (-1,)), shape)
        full_mask = pix >= t
    elif sub == 'empty':
        st = ss.MaskSubsetState(np.zeros(shape, dtype=bool), d.pixel_component_ids)
        full_mask = np.zeros(shape, dtype=bool)
    # --- viewed arrays for the oracle
    vals = x if view is None else x[view]
    vshape = np.shape(vals)
    if isinstance(axis, tuple) and any(a >= len(vshape) for a in axis) or (isinstance(axis, int) and axis >= len(vshape)):
        env.assume(False)       # axis not present after an integer view entry
    keep = np.ones(vshape, dtype=bool)
    if full_mask is not None:
        keep = keep & (full_mask if view is None else full_mask[view])
    if finite:
        keep = keep & np.isfinite(vals)
    if positive:
        keep = keep & (vals > 0)
    plain = (not finite) and (not positive) and st is None
    slice_shortcut = (sub in ('slice', 'slice2') and view is None)
    if slice_shortcut:
        # documented shortcut: the statistic is taken over the sliced array itself (result not padded)
        sl_t = tuple(st.slices)
        vals_o, keep_o = vals[sl_t], keep[sl_t]
        want = oracle_statistic(env, stat, vals_o, keep_o, axis, q, plain=False if (finite or positive) else True)
    else:
        want = oracle_statistic(env, stat, vals, keep, axis, q, plain=plain)
    kw = dict(subset_state=st, axis=axis, finite=finite, positive=positive, view=view)
    if q is not None:
        kw['percentile'] = q
    ncm = None
    if view is None and isinstance(axis, tuple) and len(axis) == nd - 1 and nd > 1 and sub not in ('slice', 'slice2'):
        size = int(np.prod(shape))
        ncm = [1, 2, size - 1, size + 1][env.choice('n_chunk_max', 4)]
        kw['n_chunk_max'] = ncm
    got = d.compute_statistic(stat, d.id['x'], **kw)
    tag = '%s axis=%s view=%s subset=%s positive=%s finite=%s n_chunk_max=%s q=%s' % (stat, axis, view, sub, positive, finite, ncm, q)
    env.true(tuple(np.shape(got)) == tuple(np.shape(want)), 'shape %s vs %s: %s' % (np.shape(got), np.shape(want), tag))
    env.same(got, want, 'statistic: ' + tag)


# ------------------------------------------------------------------ histograms

_HIST = {'true_hi': None, 'true_hi_y': None}


def install_hist_stub():
    """S-hist: fast_histogram.histogram1d/2d replaced (for symbolic inputs) by the arithmetic definition
    count_k = sum_i w_i [floor((x_i - lo) / (hi - lo) * n) == k, lo <= x_i < hi].  The upper edge actually used is
    the one the code passes, except that a nudge smaller than a quarter ulp of the upper end is treated as lost in
    the floating-point addition (so that 'the nudge vanished' defects have a reproducible witness)."""
    import glue.core.data as gd
    from vtools import symcore as sc, symnp as sn
    if getattr(gd.histogram1d, '_verif', False):
        return
    real1, real2 = gd.histogram1d, gd.histogram2d

    def eff_hi(hi, true_hi):
        if true_hi is None:
            return sc.sreal(hi)
        hi, th = sc.sreal(hi), sc.sreal(true_hi)
        stretch = hi - th
        lost = stretch < abs(th) * (2.0 ** -54)
        return sc.ite(lost, th, hi)

    def binidx(x, lo, hi, n):
        x, lo, hi = sc.sreal(x), sc.sreal(lo), sc.sreal(hi)
        # two distinct doubles near hi differ by at least |hi|*2**-53: a value closer than a quarter of that to
        # hi *is* hi as far as the compiled kernel can tell (half-open range => dropped)
        inr = (x >= lo) & (x < hi - abs(hi) * (2.0 ** -55))
        pos = (x - lo) / sc.ite(hi > lo, hi - lo, sc.sreal(1.0)) * n
        return inr, pos.to_int('floor')

    def h1(x, range=None, bins=None, weights=None):
        if not (sn.has_sym(x) or sn.has_sym(range) or sn.has_sym(weights)):
            return real1(x, range=range, bins=bins, weights=weights)
        sn.stub_hit('S-hist')
        lo, hi = range
        hi = eff_hi(hi, _HIST['true_hi'])
        xs = list(np.asarray(sn.obj(x), dtype=object).ravel())
        ws = list(np.asarray(sn.obj(weights), dtype=object).ravel()) if weights is not None else [1.0] * len(xs)
        out = np.empty(bins, dtype=object)
        idx = [binidx(v, lo, hi, bins) for v in xs]
        for k in np.arange(bins):
            acc = sc.sreal(0.0)
            for (inr, b), w in zip(idx, ws):
                acc = acc + sc.ite(inr & (b == int(k)), sc.sreal(sc.lift(w)), sc.sreal(0.0))
            out[k] = acc
        return sn.wrap(out)

    def h2(x, y, range=None, bins=None, weights=None):
        if not (sn.has_sym(x) or sn.has_sym(y) or sn.has_sym(range) or sn.has_sym(weights)):
            return real2(x, y, range=range, bins=bins, weights=weights)
        sn.stub_hit('S-hist')
        (xlo, xhi), (ylo, yhi) = range
        xhi = eff_hi(xhi, _HIST['true_hi'])
        yhi = eff_hi(yhi, _HIST['true_hi_y'])
        xs = list(np.asarray(sn.obj(x), dtype=object).ravel())
        ys = list(np.asarray(sn.obj(y), dtype=object).ravel())
        ws = list(np.asarray(sn.obj(weights), dtype=object).ravel()) if weights is not None else [1.0] * len(xs)
        nx, ny = bins
        out = np.empty((nx, ny), dtype=object)
        ix = [binidx(v, xlo, xhi, nx) for v in xs]
        iy = [binidx(v, ylo, yhi, ny) for v in ys]
        for a in np.arange(nx):
            for b in np.arange(ny):
                acc = sc.sreal(0.0)
                for (inx, bx), (iny, by), w in zip(ix, iy, ws):
                    acc = acc + sc.ite(inx & iny & (bx == int(a)) & (by == int(b)), sc.sreal(sc.lift(w)), sc.sreal(0.0))
                out[a, b] = acc
        return sn.wrap(out)

    h1._verif = True
    gd.histogram1d, gd.histogram2d = h1, h2


def bin_oracle(env, v, lo, hi, n, band, exact_edges_excluded=False):
    """(in_range, index) of value v for n equal-width bins over the closed range [lo, hi]; values within `band` of an
    interior edge (numerical ambiguity) are assumed away; values exactly on interior edges belong to the upper bin."""
    width = hi - lo
    inr = (v >= lo) & (v <= hi)
    idx = None
    for k in range(n):
        e0 = lo + width * k / n
        e1 = lo + width * (k + 1) / n
        last = (k == n - 1)
        inb = (v >= e0) & ((v <= e1) if last else (v < e1))
        idx = [inb] if idx is None else idx + [inb]
        if k > 0:
            near = (abs(v - e0) <= band)
            env.assume(~(inr & near & (v != e0)))
    return inr, idx


def body_histogram(env, n=4, bins=3, weights=False, subset='mask', reversed_range=False, two_d=False, log=False):
    from glue.core import subset as ss
    if env.symbolic:
        install_hist_stub()
    shape = (n,)
    x = env.reals('x', shape, nan=True, inf=True)
    comps = dict(x=x)
    if weights:
        w = env.reals('w', shape, lo=-3, hi=3)
        comps['w'] = w
    if two_d:
        y = env.reals('y', shape, nan=True)
        comps['y'] = y
    d = mk_data('d', **comps)
    if log:
        # concrete range ends (their log10 is then the real double, which keeps the bin arithmetic linear for the solver)
        lo, hi = LOG_RANGES[env.choice('log_range', len(LOG_RANGES))]
        wd = hi - lo
    else:
        lo = env.real('lo', lo=-50, hi=50)
        wd = env.real('wd', lo=0.125, hi=50)
        hi = lo + wd
    rng = (hi, lo) if reversed_range else (lo, hi)
    if subset == 'mask':
        m = env.bools('m', shape)
        st = ss.MaskSubsetState(m, d.pixel_component_ids)
    elif subset == 'ineq':
        t = env.real('t')
        st = d.id['x'] > t
        m = x > t
    else:
        st, m = None, np.ones(shape, dtype=bool)
    exact_excl = False
    band = wd * 1e-9
    _HIST['true_hi'] = hi
    for i in range(n):
        # inputs are doubles: either equal to the upper end of the range or at least a few ulps away from it
        env.assume((x[i] != x[i]) | (x[i] == hi) | (abs(x[i] - hi) >= (abs(hi) + 1) * 2.0 ** -44))
    if two_d:
        ylo = env.real('ylo', lo=-50, hi=50)
        ywd = env.real('ywd', lo=0.125, hi=50)
        yhi = ylo + ywd
        _HIST['true_hi_y'] = yhi
        nby = 2
        for i in range(n):
            env.assume((y[i] != y[i]) | (y[i] == yhi) | (abs(y[i] - yhi) >= (abs(yhi) + 1) * 2.0 ** -44))
        got = d.compute_histogram([d.id['x'], d.id['y']], range=[rng, (ylo, yhi)], bins=[bins, nby],
                                  weights=d.id['w'] if weights else None, subset_state=st)
        env.true(tuple(np.shape(got)) == (bins, nby), '2-d histogram shape')
        want = [[0.0 for _ in range(nby)] for _ in range(bins)]
        tot = 0.0
        for i in range(n):
            inx, bx = bin_oracle(env, x[i], lo, hi, bins, band, exact_excl)
            iny, by = bin_oracle(env, y[i], ylo, yhi, nby, ywd * 1e-9, exact_excl)
            wi = w[i] if weights else 1.0
            for a in range(bins):
                for b in range(nby):
                    want[a][b] = want[a][b] + env.ite(m[i] & inx & iny & bx[a] & by[b], wi, 0.0)
        for a in range(bins):
            for b in range(nby):
                env.close(got[a, b], want[a][b], 1e-9, '2-d histogram bin (%d,%d)' % (a, b))
        return
    if log:
        # log space: equal-width bins over the closed range [log10 lo, log10 hi] of the log10 of the values (S-log10: the
        # double-precision log10 is only assumed weakly monotone, so two doubles one ulp apart may have the same log10)
        _HIST['true_hi'] = None
        got = d.compute_histogram([d.id['x']], range=[rng], bins=[bins], weights=d.id['w'] if weights else None, subset_state=st,
                                  log=[True])
        if env.symbolic:
            from vtools import symcore as sc
            sc.log10_anchor(lo)
            sc.log10_anchor(hi)
        with np.errstate(all='ignore'):
            lx = np.log10(x)
        # exact rationals of the doubles log10(lo), log10(hi): the bin edges of the definition are then exact as well
        llo, lhi = fractions.Fraction(float(np.log10(lo))), fractions.Fraction(float(np.log10(hi)))
        vals_, lo_, hi_, band_ = lx, llo, lhi, float(lhi - llo) * 1e-9
    else:
        got = d.compute_histogram([d.id['x']], range=[rng], bins=[bins], weights=d.id['w'] if weights else None, subset_state=st)
        vals_, lo_, hi_, band_ = x, lo, hi, band
    env.true(tuple(np.shape(got)) == (bins,), 'histogram shape')
    want = [0.0] * bins
    total = 0.0
    for i in range(n):
        inr, idx = bin_oracle(env, vals_[i], lo_, hi_, bins, band_, exact_excl)
        if log:
            inr = inr & (x[i] >= lo) & (x[i] <= hi)
        wi = w[i] if weights else 1.0
        for k in range(bins):
            want[k] = want[k] + env.ite(m[i] & inr & idx[k], wi, 0.0)
        total = total + env.ite(m[i] & inr, wi, 0.0)
    for k in range(bins):
        env.close(got[k], want[k], 1e-9, 'histogram bin %d (bins=%d weights=%s subset=%s reversed=%s log=%s)' % (k, bins, weights, subset, reversed_range, log))
    env.close(np.sum(got), total, 1e-9, 'bin totals equal the number (weight) of in-range selected values')


LOG_RANGES = [(1.0, 1000.0), (0.5, 64.0), (10.0, 300.0), (0.125, 1.0)]
KNOWN_DEMOS = {}


def harnesses(tier):
    hs = []
    if tier == 'quick':
        QV = {(2, 3): [None, (slice(1, None),), (slice(None), slice(0, None, 2)), (slice(None), 1), (slice(-1, None), slice(-2, None))],
              (2, 2): [None, (slice(1, None),), (slice(None), slice(0, None, 2)), (slice(None), 1), (slice(-1, None), slice(-2, None))]}
        for stat in STATS:
            shape = (2, 2) if stat in ('median', 'percentile') else (2, 3)
            for sub in (['none', 'empty'], ['mask'], ['range'], ['slice', 'pixel']):
                if stat in ('median', 'percentile') and sub[0] in ('range', 'slice'):
                    continue          # (sorting-network terms are expensive: these combinations run in the thorough tier)
                hs.append(Harness('statistic %s %s %s' % (shape, stat, '+'.join(sub)), body_statistic,
                                  params=dict(shape=shape, stats=[stat], subsets=sub, views=QV[shape],
                                              positives=(False, True) if sub[0] in ('none', 'slice') else (False,),
                                              qs=(25, 100) if sub[0] in ('mask', 'range') else (0, 25, 50, 100)),
                                  validate=25, weight=6 if sub[0] in ('mask', 'range') else 3, max_paths=200000, wall_s=900,
                                  bounds=dict(shape=shape, statistic=stat, subsets=sub, axes='all', views=[str(v) for v in QV[shape]],
                                              n_chunk_max=[1, 2, 'size-1', 'size+1'])))
        hs.append(Harness('statistic (2, 3) slice stopping early, integer views', body_statistic,
                          params=dict(shape=(2, 3), stats=['sum', 'minimum'], subsets=['slice2'], positives=(False,),
                                      views=[None, (slice(None), 2), (slice(None), 1), (slice(None), -1), (1, 2), (slice(None), slice(1, None))]),
                          validate=25, bounds=dict(shape=(2, 3), subsets=['slice [:, 0:2]'], views='integer entries at/around the stop')))
        hs.append(Harness('statistic (2, 3) finite=False', body_statistic,
                          params=dict(shape=(2, 2), stats=['minimum', 'sum', 'median'], subsets=['none', 'mask'], finite=False,
                                      views=[None, (slice(None), slice(1, None))], positives=(False,)), validate=25,
                          bounds=dict(shape=(2, 3), finite=False, note='data without NaN')))
        for wts in (False, True):
            for sub in ('mask', 'ineq', 'none'):
                hs.append(Harness('histogram n=3 bins=3 weights=%s subset=%s' % (wts, sub), body_histogram,
                                  params=dict(n=3, bins=3, weights=wts, subset=sub, reversed_range=(sub == 'ineq')), validate=40,
                                  weight=4, bounds=dict(values=3, bins=3, weights=wts, subset=sub)))
        for sub, wts in (('mask', False), ('none', True)):
            hs.append(Harness('histogram log n=3 bins=2 weights=%s subset=%s' % (wts, sub), body_histogram,
                              params=dict(n=3, bins=2, weights=wts, subset=sub, log=True), validate=40, weight=4,
                              bounds=dict(values=3, bins=2, weights=wts, subset=sub, log=True, range=[list(r) for r in LOG_RANGES])))
        hs.append(Harness('histogram n=3 bins=1', body_histogram, params=dict(n=3, bins=1, subset='mask'), validate=40,
                          bounds=dict(values=3, bins=1)))
        hs.append(Harness('histogram 2-d n=2', body_histogram, params=dict(n=2, bins=2, subset='none', two_d=True), validate=40,
                          bounds=dict(values=2, bins=(2, 2))))
    else:
        for shape in [(2, 3), (2, 2, 2), (4,), (2, 2)]:
            for stat in STATS:
                if (stat in ('median', 'percentile')) != (shape in ((2, 2), (4,))) and shape != (4,):
                    continue          # order statistics (sorting networks over symbolic masks): the two small shapes only
                for sub in (['none', 'empty'], ['mask'], ['range', 'pixel'], ['slice', 'slice2']):
                    hs.append(Harness('statistic %s %s %s' % (shape, stat, '+'.join(sub)), body_statistic,
                                      params=dict(shape=shape, stats=[stat], subsets=sub), validate=40, weight=8 if 'mask' in sub else 3,
                                      max_paths=2000000, wall_s=3400,
                                      bounds=dict(shape=shape, statistic=stat, subsets=sub, axes='all', views=len(views_for(shape)))))
        hs.append(Harness('statistic (2, 3) finite=False', body_statistic,
                          params=dict(shape=(2, 2), stats=STATS, subsets=['none', 'mask', 'range'], finite=False), validate=40,
                          wall_s=3400, bounds=dict(shape=(2, 2), finite=False, note='data without NaN')))
        # (four symbolic values per histogram gave single queries beyond the solver time limit -> three values, more bin counts)
        for nval, nb in ((3, 4), (3, 2), (3, 5)):
            for wts in (False, True):
                for sub in ('mask', 'ineq', 'none'):
                    for rev in (False, True):
                        hs.append(Harness('histogram n=%d bins=%d weights=%s subset=%s rev=%s' % (nval, nb, wts, sub, rev), body_histogram,
                                          params=dict(n=nval, bins=nb, weights=wts, subset=sub, reversed_range=rev), validate=40,
                                          weight=6, wall_s=3400, query_timeout_ms=120000,
                                          bounds=dict(values=nval, bins=nb, weights=wts, subset=sub, reversed=rev)))
        hs.append(Harness('histogram 2-d n=3', body_histogram, params=dict(n=3, bins=2, subset='none', two_d=True),
                          validate=40, wall_s=3400, query_timeout_ms=120000, bounds=dict(values=3, bins=(2, 2))))
        hs.append(Harness('histogram 2-d n=2 weights mask', body_histogram, params=dict(n=2, bins=2, subset='mask', two_d=True, weights=True),
                          validate=40, wall_s=3400, query_timeout_ms=120000, bounds=dict(values=2, bins=(2, 2), weights=True, subset='mask')))
        for sub, wts in (('mask', False), ('none', True), ('ineq', False)):
            hs.append(Harness('histogram log n=3 bins=3 weights=%s subset=%s' % (wts, sub), body_histogram,
                              params=dict(n=3, bins=3, weights=wts, subset=sub, log=True), validate=40, weight=4, wall_s=3400,
                              bounds=dict(values=3, bins=3, weights=wts, subset=sub, log=True, range=[list(r) for r in LOG_RANGES])))
    return hs
