"""C16 - A fixed-resolution buffer equals nearest-pixel resampling through the links."""
import numpy as np

from vtools.runner import Harness, FuncHarness
from .common import mk_data, kf_active

ID = 'C16'
LEVEL = 'other'
EXPLANATION = ('compute_fixed_resolution_buffer / translate_pixel / bounds_for_cache / AnyScalar run on symbolic source '
               'values, symbolic selection thresholds, symbolic bounds (range ends, scalar positions) and symbolic link '
               'offsets; rounding to the nearest pixel and the gather from the source are SMT terms (if-then-else chains), '
               'cache hits are solver-decided forks on the equality of symbolic bounds; z3 proves every buffer element equal '
               'to nearest-pixel resampling and every cached answer equal to the uncached one')


def positions(env, bound):
    """sample positions of one reference dimension"""
    if isinstance(bound, tuple):
        lo, hi, n = bound
        if n == 1:
            return [lo]
        return [lo + (hi - lo) * (i / (n - 1)) if i < n - 1 else hi for i in range(n)]
    return [bound]


def rint(env, q):
    if env.symbolic:
        from vtools import symcore as sc
        return sc.sreal(q).to_int('rint')
    return int(np.round(q))


def gather(env, src, ks, invalid_value):
    """src[k0, k1, ...] if all indices are inside, else invalid_value (oracle; ks are ints or SymInts)"""
    shape = np.shape(src)
    if not env.symbolic:
        if all(0 <= k < n for k, n in zip(ks, shape)):
            return src[tuple(ks)]
        return invalid_value
    from vtools import symcore as sc
    inside = None
    for k, n in zip(ks, shape):
        c = (k >= 0) & (k < n)
        inside = c if inside is None else (inside & c)
    acc = sc.lift(invalid_value) if not isinstance(invalid_value, float) or invalid_value == invalid_value else sc.sreal(float('nan'))
    for pos in np.ndindex(*shape):
        cond = None
        for k, p in zip(ks, pos):
            c = (k == p)
            cond = c if cond is None else (cond & c)
        acc = sc.ite(inside & cond, src[pos], acc)
    return acc


SOURCES = ['self', 'permuted', 'offset', 'lower-dim']


def build(env, source):
    """reference dataset R (2, 3) and a source dataset linked to it; returns (R, S, dc, linkfun) where linkfun maps a tuple
    of reference pixel positions to the tuple of source pixel positions (None where a source axis... all defined)"""
    from glue.core import DataCollection
    from glue.core.component_link import ComponentLink
    rshape = (2, 3)
    R = mk_data('R', x=env.reals('rx', rshape, nan=True), y=env.reals('ry', rshape))
    if source == 'self':
        return R, R, DataCollection([R]), lambda p: (p[0], p[1])
    if source == 'permuted':
        S = mk_data('S', x=env.reals('sx', (3, 2), nan=True), y=env.reals('sy', (3, 2)))
        dc = DataCollection([R, S])
        dc.add_link(ComponentLink([R.pixel_component_ids[0]], S.pixel_component_ids[1], using=lambda a: a))
        dc.add_link(ComponentLink([R.pixel_component_ids[1]], S.pixel_component_ids[0], using=lambda a: a))
        return R, S, dc, lambda p: (p[1], p[0])
    if source == 'offset':
        off = env.real('off', lo=-3, hi=3)
        S = mk_data('S', x=env.reals('sx', (2, 2), nan=True), y=env.reals('sy', (2, 2)))
        dc = DataCollection([R, S])
        dc.add_link(ComponentLink([R.pixel_component_ids[0]], S.pixel_component_ids[0], using=lambda a: a * 0.5 + off))
        dc.add_link(ComponentLink([R.pixel_component_ids[1]], S.pixel_component_ids[1], using=lambda a: 1 - a))
        return R, S, dc, lambda p: (p[0] * 0.5 + off, 1 - p[1])
    if source == 'lower-dim':
        S = mk_data('S', x=env.reals('sx', (3,), nan=True), y=env.reals('sy', (3,)))
        dc = DataCollection([R, S])
        dc.add_link(ComponentLink([R.pixel_component_ids[1]], S.pixel_component_ids[0], using=lambda a: a + 0))
        return R, S, dc, lambda p: (p[1],)
    raise ValueError(source)


def request(env, R, S, kind, bounds, cache_id, thr):
    from glue.core.fixed_resolution_buffer import compute_fixed_resolution_buffer
    kw = dict(target_data=R, cache_id=cache_id)
    if kind == 'x':
        kw['target_cid'] = S.id['x']
    elif kind == 'y':
        kw['target_cid'] = S.id['y']
    else:
        kw['subset_state'] = thr[kind]
    return compute_fixed_resolution_buffer(S, list(bounds), **kw)


def oracle(env, S, kind, bounds, linkfun, tvals):
    pos = [positions(env, b) for b in bounds]
    out_shape = tuple(len(p) for p, b in zip(pos, bounds) if isinstance(b, tuple))
    out = np.empty(out_shape, dtype=object)
    sx, sy = S['x'], S['y']
    for i0, p0 in enumerate(pos[0]):
        for i1, p1 in enumerate(pos[1]):
            q = linkfun((p0, p1))
            ks = [rint(env, c) for c in q]
            if kind == 'x':
                v = gather(env, sx, ks, float('nan'))
            elif kind == 'y':
                v = gather(env, sy, ks, float('nan'))
            else:
                t = tvals[kind]
                m = (sx > t) if kind == 's1' else ((sy <= t) | (sx < t - 1))
                v = gather(env, m, ks, False)
            o = tuple(i for i, b in zip((i0, i1), bounds) if isinstance(b, tuple))
            out[o] = v
    if not env.symbolic:
        return np.array(out.tolist(), dtype=bool if kind in ('s1', 's2') else float).reshape(out_shape)
    from vtools import symnp as sn
    return sn.wrap(out) if out.ndim else out[()]


def states(env, S):
    t1, t2 = env.real('t1', lo=-4, hi=4), env.real('t2', lo=-4, hi=4)
    sx, sy = S.id['x'], S.id['y']
    from glue.core.subset import InequalitySubsetState, OrState
    import operator
    s1 = InequalitySubsetState(sx, t1, operator.gt)
    s2 = (sy <= t2) | (sx < t2 - 1)
    return {'s1': s1, 's2': s2}, {'s1': t1, 's2': t2}


def half_guard(env, S, bounds, linkfun):
    """rounding exactly at .5 follows numpy's round-half-even in both the code and the oracle; nothing to exclude"""
    return


def body_nearest(env, source='self', n0=2, n1=3):
    """one request without a cache: every element is the nearest source pixel through the links, NaN/False outside"""
    R, S, dc, linkfun = build(env, source)
    thr, tvals = states(env, S)
    kind = ['x', 'y', 's1', 's2'][env.choice('kind', 4)]
    scalar0 = env.choice('dim0_scalar', 2)
    a, b = env.real('a', lo=-2, hi=4), env.real('b', lo=-2, hi=4)
    c, e = env.real('c', lo=-2, hi=5), env.real('e', lo=-2, hi=5)
    b0 = env.real('s', lo=-2, hi=4) if scalar0 else (a, b, n0)
    bounds = [b0, (c, e, n1)]
    got = request(env, R, S, kind, bounds, None, thr)
    want = oracle(env, S, kind, bounds, linkfun, tvals)
    env.true(tuple(np.shape(got)) == tuple(np.shape(want)), 'buffer shape %s vs %s' % (np.shape(got), np.shape(want)))
    env.same(got, want, 'buffer equals nearest-pixel resampling (%s, %s, scalar0=%d)' % (source, kind, scalar0))


def body_cache(env, source='self', nreq=3, r1_kind=None, r0_dim0=None):
    """sequences of requests under one cache id: every answer equals the uncached answer"""
    from glue.core import fixed_resolution_buffer as frb
    frb.ARRAY_CACHE.clear()
    frb.PIXEL_CACHE.clear()
    R, S, dc, linkfun = build(env, source)
    thr, tvals = states(env, S)
    a, b = env.real('a', lo=-2, hi=4), env.real('b', lo=-2, hi=4)
    s, s2 = env.real('s', lo=-2, hi=4), env.real('sb', lo=-2, hi=4)
    c, e = env.real('c', lo=-2, hi=5), env.real('e', lo=-2, hi=5)
    c2, e2 = env.real('c2', lo=-2, hi=5), env.real('e2', lo=-2, hi=5)
    env.assume((s != s2) & (c != c2) & (e != e2))       # coinciding values of different options are the same option
    dim0 = [(a, b, 2), s, s2]
    dim1 = [(c, e, 3), (c2, e2, 3)]
    kinds = ['x', 'y', 's1']
    cid = 'cache-%s' % source
    prev = None
    for r in range(nreq):
        if r == 0:
            k = 'x'
            i0 = env.choice('r0_dim0', 2) if r0_dim0 is None else r0_dim0
            i1 = 0
        else:
            if r == 1:
                k = kinds[env.choice('r1_kind', 3)] if r1_kind is None else kinds[r1_kind]
            else:
                k = [prev[0], 'x'][env.choice('r%d_kind' % r, 2)]
            i0 = env.choice('r%d_dim0' % r, 3)
            i1 = env.choice('r%d_dim1' % r, 2)
        bounds = [dim0[i0], dim1[i1]]
        cached = request(env, R, S, k, bounds, cid, thr)
        cold = request(env, R, S, k, bounds, None, thr)
        env.true(tuple(np.shape(cached)) == tuple(np.shape(cold)), 'request %d: cached shape %s vs uncached %s (%s dim0#%d dim1#%d)'
                 % (r, np.shape(cached), np.shape(cold), k, i0, i1))
        env.same(cached, cold, 'request %d (%s, dim0 option %d, dim1 option %d after %s): cached answer equals the uncached one'
                 % (r, k, i0, i1, prev))
        prev = (k, i0, i1)
    frb.ARRAY_CACHE.clear()
    frb.PIXEL_CACHE.clear()


# ------------------------------------------------------------------ slice_to_bound (integer kernel of the image layer)

def extract_slice_to_bound():
    """AST-extract the nested helper from the current source of glue/viewers/image/state.py"""
    import ast
    import os
    from vtools.runner import GLUE_SRC
    path = os.path.join(GLUE_SRC, 'glue', 'viewers', 'image', 'state.py')
    tree = ast.parse(open(path).read())
    for node in ast.walk(tree):
        if isinstance(node, ast.FunctionDef) and node.name == 'slice_to_bound':
            mod = ast.Module(body=[node], type_ignores=[])
            ns = {}
            exec(compile(mod, path, 'exec'), ns)
            return ns['slice_to_bound']
    raise RuntimeError('slice_to_bound not found')


def body_slice_to_bound(env, N=12):
    """np.linspace(min, max, n) positions == range(size)[slice] for all start/stop/step>0/size"""
    from .c20 import SSlice
    f = extract_slice_to_bound()
    size = env.int('size', 1, N)
    start = env.int('start', -N - 1, N + 1)
    stop = env.int('stop', -N - 1, N + 1)
    step = env.choice('step', 3) + 1
    j = env.int('j', 0, N)
    sl = SSlice(start, stop, step) if env.symbolic else slice(start, stop, step)
    b, e, _ = sl.indices(size)
    length = env.ite(e <= b, 0 * size, (e - b + step - 1) // step)
    env.assume(length >= 1)          # an empty slice has no bounds (the image layer never asks for one)
    mn, mx, n = f(sl, size)
    env.true(n == length, 'number of steps equals the length of range(size)[slice]')
    env.assume(j < length)
    # j-th linspace position (exact: positions are integers) equals the j-th selected index
    env.true((mx - mn) == step * (n - 1), 'max - min spans (n - 1) steps')
    env.true(mn + j * step == b + j * step, 'first position is the slice start')
    env.true((mn >= 0) & (mx <= size - 1), 'bounds inside the array')


def harnesses(tier):
    hs = []
    for src in SOURCES:
        hs.append(Harness('nearest %s' % src, body_nearest, params=dict(source=src), validate=25, weight=4, wall_s=900,
                          bounds=dict(reference_shape=(2, 3), source=src, steps=(2, 3), bounds='symbolic in [-2,5]', requests=['x', 'y', 'mask1', 'mask2'])))
    nreq = 3
    for src in (['self', 'offset', 'lower-dim'] if tier == 'quick' else SOURCES):
        for k1 in range(3):
            if tier == 'quick' and src == 'offset' and k1 != 1:
                continue          # (the offset/scaled source repeats the cache logic of 'self': one variant in the quick tier)
            hs.append(Harness('cache %s x%d second=%s' % (src, nreq, ['x', 'y', 'mask'][k1]), body_cache,
                              params=dict(source=src, nreq=nreq, r1_kind=k1), validate=10, weight=9, wall_s=1800, max_paths=500000,
                              bounds=dict(reference_shape=(2, 3), source=src, requests=nreq, dim0_options=3, dim1_options=2,
                                          second_request=['x', 'y', 'mask'][k1])))
    hs.append(Harness('slice_to_bound', body_slice_to_bound, params=dict(N=12 if tier == 'quick' else 40), validate=200, weight=5,
                      bounds=dict(size_max=12 if tier == 'quick' else 40, steps=[1, 2, 3]),
                      assumptions=['slice.indices replaced by its CPython algorithm (S-slice); helper extracted by AST from the current source']))
    if tier == 'thorough':
        # four requests: for the two sources with distinct cache logic, split by the kind of the second and the first bound of the first request
        for src in ('self', 'lower-dim'):
            for k1 in range(3):
                for d0 in range(2):
                    hs.append(Harness('cache %s x4 second=%s first-dim0=%d' % (src, ['x', 'y', 'mask'][k1], d0), body_cache,
                                      params=dict(source=src, nreq=4, r1_kind=k1, r0_dim0=d0), validate=10, weight=20, wall_s=3400,
                                      max_paths=2000000, bounds=dict(source=src, requests=4, second_request=['x', 'y', 'mask'][k1],
                                                                     first_request_dim0=['range', 'scalar'][d0])))
    return hs
