"""C01 - Selections form a faithful Boolean algebra over membership masks."""
import operator
import numpy as np

from vtools.runner import Harness
from .common import mk_data, kf_active

ID = 'C01'
LEVEL = 'other'
EXPLANATION = ('bounded symbolic execution of the real SubsetState classes / edit modes on arrays of SMT '
               'terms; per path the mask terms are proved equal (z3) to the same Boolean tree applied to '
               'the leaf masks and to the leaves\' mathematical definitions')

OPS = [operator.and_, operator.or_, operator.xor]
OPN = ['and', 'or', 'xor']
INEQ = [operator.gt, operator.ge, operator.lt, operator.le, operator.eq, operator.ne]


def build_data(env, shape):
    x = env.reals('x', shape, nan=True, inf=True)
    y = env.reals('y', shape, nan=True)
    d = mk_data('d', x=x, y=y)
    return d, x, y


def leaf(env, kind, d, x, y, tag, ineqop=None):
    """returns (state, definition-mask) for an elementary selection of the given kind"""
    from glue.core import subset as ss
    from glue.core.roi import RectangularROI
    shape = d.shape
    if kind == 'ineq':
        t = env.real('t' + tag)
        k = env.choice('ineqop' + tag, len(INEQ)) if ineqop is None else ineqop
        st = ss.InequalitySubsetState(d.id['x'], t, INEQ[k])
        return st, INEQ[k](x, t)
    if kind == 'ineq2':       # attribute vs attribute (built through ComponentID operators)
        st = d.id['x'] > d.id['y']
        return st, x > y
    if kind == 'range':
        lo, hi = env.real('lo' + tag), env.real('hi' + tag)
        st = ss.RangeSubsetState(lo, hi, att=d.id['y'])
        return st, (y >= lo) & (y <= hi)
    if kind == 'mask':
        m = env.bools('m' + tag, shape)
        st = ss.MaskSubsetState(m, d.pixel_component_ids)
        return st, m
    if kind == 'multirange':
        a, b, c, e = [env.real(n + tag) for n in ('a', 'b', 'c', 'e')]
        st = ss.MultiRangeSubsetState([(a, b), (c, e)], att=d.id['x'])
        return st, ((x >= a) & (x <= b)) | ((x >= c) & (x <= e))
    if kind == 'rect':
        x0, x1, y0, y1 = [env.real(n + tag) for n in ('x0', 'x1', 'y0', 'y1')]
        st = ss.RoiSubsetState(d.id['x'], d.id['y'], RectangularROI(x0, x1, y0, y1))
        return st, (x > x0) & (x < x1) & (y > y0) & (y < y1)
    if kind == 'pixineq':
        t = env.real('tp' + tag)
        st = d.pixel_component_ids[0] >= t
        pix = np.broadcast_to(np.arange(shape[0]).reshape((-1,) + (1,) * (len(shape) - 1)), shape)
        return st, pix >= t
    if kind == 'slice':
        st = ss.SliceSubsetState(d, [slice(1, None)] + [slice(None)] * (len(shape) - 1))
        m = np.zeros(shape, dtype=bool)
        m[1:] = True
        return st, m
    if kind == 'element':
        st = ss.ElementSubsetState(indices=[0, int(np.prod(shape)) - 1], data=d)
        m = np.zeros(shape, dtype=bool)
        m[(0,) * len(shape)] = True
        m[tuple(s - 1 for s in shape)] = True
        return st, m
    if kind == 'derived':
        t = env.real('td' + tag)
        cid = d.id['z'] if 'z' in [c.label for c in d.components] else None
        if cid is None:
            d.add_component_link(d.id['x'] + d.id['y'], 'z')
        st = d.id['z'] < t
        return st, (x + y) < t
    raise ValueError(kind)


def mask_of(d, st):
    return d.get_mask(st)


def body_tree(env, shape=(2, 2), kinds=('ineq', 'range', 'mask'), preeval=0, ineqop=0):
    """((A op1 B) op2 C) with optional inversions + the many-way or; operands preserved; order independent"""
    from glue.core import subset as ss
    d, x, y = build_data(env, shape)
    (A, defA), (B, defB), (C, defC) = [leaf(env, k, d, x, y, str(i), ineqop) for i, k in enumerate(kinds)]
    form = env.choice('form', 4)
    # leaf masks before anything composite exists; also fills the leaves' memo caches
    if preeval:
        mA0, mB0, mC0 = mask_of(d, A), mask_of(d, B), mask_of(d, C)
        env.same(mA0, defA, 'leaf A mask == definition (pre)')
    if form == 0:
        o1 = env.choice('op1', 3)
        o2 = env.choice('op2', 3)
        ia, ib, ic, i1 = [env.choice(n, 2) for n in ('invA', 'invB', 'invC', 'inv1')]
        sa, sb, sc_ = (~A if ia else A), (~B if ib else B), (~C if ic else C)
        inner = OPS[o1](sa, sb)
        inner = ~inner if i1 else inner
        tree = OPS[o2](inner, sc_)
        da, db, dc_ = (~defA if ia else defA), (~defB if ib else defB), (~defC if ic else defC)
        oi = OPS[o1](da, db)
        oi = ~oi if i1 else oi
        oracle = OPS[o2](oi, dc_)
        # sub-tree evaluated first must not change the whole
        if env.choice('subfirst', 2):
            env.same(mask_of(d, inner), oi, 'inner sub-tree mask')
    elif form == 1:
        tree = ss.MultiOrState([A, B, C])
        oracle = defA | defB | defC
    elif form == 2:
        tree = ss.MultiOrState([A & B, ~C, A ^ C]) & ~(B | C)
        oracle = ((defA & defB) | (~defC) | (defA ^ defC)) & ~(defB | defC)
    else:
        o1 = env.choice('op1', 3)
        tree = ss.combine_multiple([A, B, C], OPS[o1])
        oracle = OPS[o1](OPS[o1](defA, defB), defC)
    m = mask_of(d, tree)
    env.true(tuple(np.shape(m)) == tuple(shape), 'mask has the dataset shape')
    env.same(m, oracle, 'tree mask == boolean tree of leaf definitions')
    # second evaluation (memoised) and evaluation of a copy agree
    env.same(mask_of(d, tree), oracle, 'second evaluation')
    env.same(mask_of(d, tree.copy()), oracle, 'evaluation of a copy')
    # operands unaltered by combining / copying / evaluating
    env.same(mask_of(d, A), defA, 'operand A unaltered')
    env.same(mask_of(d, B), defB, 'operand B unaltered')
    env.same(mask_of(d, C), defC, 'operand C unaltered')


def body_leafkinds(env, shape=(2, 2), kinds=('rect', 'multirange', 'pixineq', 'slice', 'element', 'derived', 'ineq2', 'ineq')):
    """every elementary kind K combined with an opaque mask leaf M under and/or/xor/not/multi-or"""
    from glue.core import subset as ss
    d, x, y = build_data(env, shape)
    k = env.choice('kind', len(kinds))
    K, defK = leaf(env, kinds[k], d, x, y, 'k')
    M, defM = leaf(env, 'mask', d, x, y, 'm')
    form = env.choice('form', 5)
    if form == 0:
        tree, oracle = K & M, defK & defM
    elif form == 1:
        tree, oracle = M | K, defM | defK
    elif form == 2:
        tree, oracle = K ^ M, defK ^ defM
    elif form == 3:
        tree, oracle = ~K, ~np.asarray(defK) if not env.symbolic else ~defK
    else:
        tree, oracle = ss.MultiOrState([M, K]), defM | defK
    m = mask_of(d, tree)
    env.true(tuple(np.shape(m)) == tuple(shape), 'mask has the dataset shape')
    env.same(m, np.broadcast_to(oracle, shape), 'tree mask == boolean tree of leaf definitions')
    env.same(mask_of(d, K), np.broadcast_to(defK, shape), 'operand K unaltered / equals definition')
    env.same(mask_of(d, M), defM, 'operand M unaltered')


MODES = ['ReplaceMode', 'AndMode', 'OrMode', 'XorMode', 'AndNotMode', 'NewMode']


def mode_oracle(name, cur, new):
    if name in ('ReplaceMode', 'NewMode'):
        return new
    if name == 'AndMode':
        return new & cur
    if name == 'OrMode':
        return new | cur
    if name == 'XorMode':
        return new ^ cur
    if name == 'AndNotMode':
        return cur & ~new
    raise ValueError(name)


def body_editmodes(env, shape=(3,), steps=2, start=None):
    """edit-mode sequences applied to a real DataCollection / SubsetGroup, starting either with no edit
    subset at all or with a freshly created (empty) subset group"""
    from glue.core import DataCollection
    from glue.core import edit_subset_mode as esm
    d, x, y = build_data(env, shape)
    dc = DataCollection([d])
    mode = esm.EditSubsetMode()
    mode.data_collection = dc
    kinds = ['ineq', 'range', 'mask']
    start = env.choice('start', 2) if start is None else start
    cur = None
    if start == 1:
        g0 = dc.new_subset_group()
        mode.edit_subset = [g0]
        cur = np.zeros(shape, dtype=bool)
    others = []
    for s in range(steps):
        st, df = leaf(env, kinds[s % 3], d, x, y, 's%d' % s, ineqop=s % 6)
        mname = MODES[env.choice('mode%d' % s, len(MODES))]
        mode.mode = getattr(esm, mname)
        before = list(dc.subset_groups)
        prev_edit = mode.edit_subset[0] if mode.edit_subset else None
        mode.update(dc, st)
        if mname == 'NewMode' or cur is None:
            env.true(len(dc.subset_groups) == len(before) + 1, 'new group created')
            if prev_edit is not None:
                others.append((prev_edit, cur))
            cur = df
        else:
            env.true(len(dc.subset_groups) == len(before), 'no group created')
            cur = mode_oracle(mname, cur, df)
        g = mode.edit_subset[0] if isinstance(mode.edit_subset, list) else mode.edit_subset
        sub = [sset for sset in d.subsets if sset.group is g]
        env.true(len(sub) == 1, 'edited group has one subset on the dataset')
        env.same(sub[0].to_mask(), cur, 'after step %d (%s)' % (s, mname))
        env.same(d.get_mask(st), df, 'applied state unaltered at step %d' % s)
        # groups left behind by NewMode keep their selection
        for og, om in others:
            osub = [sset for sset in d.subsets if sset.group is og][0]
            env.same(osub.to_mask(), om, 'untouched group keeps its selection at step %d' % s)


def harnesses(tier):
    hs = []
    if tier == 'quick':
        for pre in (0, 1):
            hs.append(Harness('tree(2,2)pre%d' % pre, body_tree, params=dict(shape=(2, 2), preeval=pre, ineqop=pre), validate=30,
                              bounds=dict(shape=(2, 2), leaves=3, depth=2, leaf_kinds=['ineq', 'range', 'mask'])))
        hs.append(Harness('leafkinds(2,2)', body_leafkinds, params=dict(shape=(2, 2)), validate=30,
                          bounds=dict(shape=(2, 2), kinds=8, forms=5, inequality_operators=6)))
        for st in (0, 1):
            hs.append(Harness('editmodes(3,)x3 start=%d' % st, body_editmodes, params=dict(shape=(3,), steps=3, start=st),
                              validate=30, bounds=dict(shape=(3,), steps=3, modes=6, start=['no edit subset', 'fresh empty group'][st])))
    else:
        for shape in [(4,), (2, 3), (2, 2, 2)]:
            for pre in (0, 1):
                hs.append(Harness('tree%spre%d' % (shape, pre), body_tree, validate=50,
                                  params=dict(shape=shape, preeval=pre, ineqop=2 + pre),
                                  bounds=dict(shape=shape, leaves=3, depth=2)))
            hs.append(Harness('tree-alt%s' % (shape,), body_tree, validate=20,
                              params=dict(shape=shape, kinds=('rect', 'multirange', 'derived')),
                              bounds=dict(shape=shape, leaves=3, depth=2, leaf_kinds=['rect', 'multirange', 'derived'])))
            hs.append(Harness('leafkinds%s' % (shape,), body_leafkinds, params=dict(shape=shape), validate=50,
                              bounds=dict(shape=shape, kinds=7, forms=5)))
        for st in (0, 1):
            hs.append(Harness('editmodes(3,)x4 start=%d' % st, body_editmodes, params=dict(shape=(3,), steps=4, start=st),
                              validate=50, bounds=dict(shape=(3,), steps=4, modes=6)))
            hs.append(Harness('editmodes(2,2)x3 start=%d' % st, body_editmodes, params=dict(shape=(2, 2), steps=3, start=st),
                              validate=50, bounds=dict(shape=(2, 2), steps=3, modes=6)))
    return hs
