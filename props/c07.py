"""C07 - The hub delivers each message exactly once, in order, to the right listeners."""
import numpy as np

from vtools.runner import Harness

ID = 'C07'
LEVEL = 'model_checking'
EXPLANATION = ('bounded model checking of the real Hub: every operation sequence up to the depth bound is chosen by '
               'the solver (opcodes are symbolic integers concretised by all-SAT enumeration), subscription flags, '
               'filter verdicts and priorities are symbolic and fork only where the real code branches on them; each '
               'trace is executed on the real Hub and compared with a reference model with an explicit nesting depth')

# opcodes
BA, BB, BC, ENTER, EXIT, EXIT_EXC, IGN_A, IGN_C, EXIT_IGN, SUB, UNSUB, UNSUB_ALL = range(12)
OPNAMES = ['broadcast A', 'broadcast B(subclass of A)', 'broadcast C', 'enter delay', 'exit delay', 'exit delay by exception',
           'enter ignore(A)', 'enter ignore(C)', 'exit innermost ignore/delay', 'subscribe L2 to A', 'unsubscribe L0 from A',
           'unsubscribe_all L1']


def classes():
    from glue.core.message import Message

    class A(Message):
        pass

    class B(A):
        pass

    class C(Message):
        pass
    return A, B, C


class Model:
    """reference semantics (30 lines): explicit nesting depth + pending queue"""

    def __init__(self, log):
        self.subs = {}       # listener -> {cls: (behaviour, accept, priority)}
        self.depth = 0
        self.queue = []
        self.ignore = {}
        self.log = log

    def broadcast(self, msg):
        if self.ignore.get(type(msg), 0) > 0:
            return
        if self.depth > 0:
            self.queue.append(msg)
            return
        targets = []
        for lis, subs in list(self.subs.items()):
            cands = [c for c in subs if isinstance(msg, c)]
            if not cands:
                continue
            best = max(cands, key=lambda c: len(c.__mro__))
            beh, accept, prio = subs[best]
            if bool(accept):
                targets.append((lis, beh, prio))
        # higher priority first (priorities are assumed pairwise distinct in the harness)
        order = []
        for t in targets:
            i = 0
            while i < len(order) and bool(order[i][2] > t[2]):
                i += 1
            order.insert(i, t)
        for lis, beh, prio in order:
            beh(self, lis, msg)

    def enter(self):
        self.depth += 1

    def exit(self):
        self.depth -= 1
        if self.depth == 0:
            q, self.queue = self.queue, []
            for m in q:
                self.broadcast(m)


def body(env, k=4, first=None, ops=(BA, BB, BC, ENTER, EXIT, IGN_A, EXIT_IGN, SUB, UNSUB), behaviours=True, beh0=None):
    from glue.core.hub import Hub, HubListener
    A, B, C = classes()

    class L(HubListener):
        def __init__(self, name):
            self.name = name

        def notify(self, m):
            raise AssertionError('default notify must not be used')

    hub = Hub()
    real_log, model_log = [], []
    model = Model(model_log)
    Ls = [L('L0'), L('L1'), L('L2')]
    mid = [0]

    def mk(cls, tag):
        m = cls(sender=None, tag='%s%d' % (tag, mid[0]))
        mid[0] += 1
        return m

    # --- handler behaviours: the same closure drives the real hub and the model
    def plain(target, lis, msg):
        (real_log if target is hub else model_log).append((lis.name, msg.tag))

    def rebroadcast(target, lis, msg):
        # a handler that itself broadcasts: nested delivery before it returns
        lg = real_log if target is hub else model_log
        lg.append((lis.name, msg.tag, 'begin'))
        if isinstance(msg, A):
            target.broadcast(pending_nested[id(msg)])
        lg.append((lis.name, msg.tag, 'end'))

    def delaying(target, lis, msg):
        # a handler that opens a delay block, broadcasts inside it, and closes it
        lg = real_log if target is hub else model_log
        lg.append((lis.name, msg.tag, 'begin'))
        if isinstance(msg, A):
            if target is hub:
                with hub.delay_callbacks():
                    hub.broadcast(pending_nested[id(msg)])
                    lg.append((lis.name, msg.tag, 'inside'))
            else:
                model.enter()
                model.broadcast(pending_nested[id(msg)])
                lg.append((lis.name, msg.tag, 'inside'))
                model.exit()
        lg.append((lis.name, msg.tag, 'end'))

    def selfunsub(target, lis, msg):
        lg = real_log if target is hub else model_log
        lg.append((lis.name, msg.tag))
        if target is hub:
            hub.unsubscribe(lis, A)
        else:
            model.subs.get(lis, {}).pop(A, None)

    pending_nested = {}
    BEH = [plain, rebroadcast, delaying, selfunsub] if behaviours else [plain]

    def subscribe(lis, cls, beh, accept, prio):
        hub.subscribe(lis, cls, handler=lambda m, lis=lis, beh=beh: beh(hub, lis, m),
                      filter=lambda m, accept=accept: accept, priority=prio)
        model.subs.setdefault(lis, {})[cls] = (beh, accept, prio)

    # --- initial configuration: symbolic priorities / filter verdicts / subscription flags
    p = [env.int('prio%d' % i, 0, 3) for i in range(3)]
    env.assume((p[0] != p[1]) & (p[1] != p[2]) & (p[0] != p[2]))
    acc = env.bool('L1_filter_accepts')
    accB = env.bool('L1_B_filter_accepts')
    b0 = BEH[env.choice('beh_L0', len(BEH)) if beh0 is None else beh0]
    subscribe(Ls[0], A, b0, True, p[0])
    subscribe(Ls[1], A, plain, acc, p[1])
    if bool(env.bool('L1_also_subscribed_to_B')):
        subscribe(Ls[1], B, plain, accB, p[1])       # most specific subscription wins for B messages
    subscribe(Ls[2], C, plain, True, p[2])

    stack = []   # open context managers (real), LIFO
    trace = []
    for step in range(k):
        if step == 0 and first is not None:
            op = first
        else:
            op = ops[env.choice('op%d' % step, len(ops))]
        trace.append(OPNAMES[op])
        if op in (BA, BB, BC):
            cls = {BA: A, BB: B, BC: C}[op]
            m = mk(cls, cls.__name__)
            if cls is not C:
                pending_nested[id(m)] = mk(C, 'nested')
            hub.broadcast(m)
            model.broadcast(m)
        elif op == ENTER:
            cm = hub.delay_callbacks()
            cm.__enter__()
            stack.append(('delay', cm))
            model.enter()
        elif op in (EXIT, EXIT_EXC, EXIT_IGN):
            if not stack:
                env.assume(False)
            kind, cm = stack.pop()
            if op == EXIT_EXC and kind == 'delay':
                try:
                    cm.__exit__(ValueError, ValueError('boom'), None)
                except ValueError:
                    pass
            else:
                cm.__exit__(None, None, None)
            if kind == 'delay':
                model.exit()
            else:
                model.ignore[cm_type[id(cm)]] -= 1
        elif op in (IGN_A, IGN_C):
            t = A if op == IGN_A else C
            cm = hub.ignore_callbacks(t)
            cm.__enter__()
            cm_type[id(cm)] = t
            stack.append(('ignore', cm))
            model.ignore[t] = model.ignore.get(t, 0) + 1
        elif op == SUB:
            subscribe(Ls[2], A, plain, True, p[2])
        elif op == UNSUB:
            hub.unsubscribe(Ls[0], A)
            model.subs.get(Ls[0], {}).pop(A, None)
        elif op == UNSUB_ALL:
            hub.unsubscribe_all(Ls[1])
            model.subs.pop(Ls[1], None)
        env.true(real_log == model_log, 'delivery log after step %d of %s' % (step, trace))
        env.count('transitions')
        env.state((model.depth, len(model.queue), tuple(sorted((t.__name__, n) for t, n in model.ignore.items())),
                   tuple(sorted((l.name, tuple(sorted(c.__name__ for c in s))) for l, s in model.subs.items())),
                   len(model_log)))
    # close everything that is still open (outermost exit flushes)
    while stack:
        kind, cm = stack.pop()
        cm.__exit__(None, None, None)
        if kind == 'delay':
            model.exit()
        else:
            model.ignore[cm_type[id(cm)]] -= 1
    env.true(real_log == model_log, 'delivery log after closing all blocks, trace %s' % trace)
    env.true(len(hub._queue) == 0 and not hub._paused, 'hub idle after all blocks closed')
    env.count('traces')


cm_type = {}


def harnesses(tier):
    hs = []
    if tier == 'quick':
        ops = (BA, BB, BC, ENTER, EXIT, IGN_A, SUB, UNSUB)
        k = 4
        for f in ops:
            if f == EXIT:
                continue
            for b in range(4):
                hs.append(Harness('hub k=%d first=%s beh=%d' % (k, OPNAMES[f], b), body,
                                  params=dict(k=k, first=f, ops=ops, beh0=b),
                                  bounds=dict(steps=k, opcodes=[OPNAMES[o] for o in ops], listeners=3, message_classes=3,
                                              priorities='symbolic distinct in [0,3]', handler_behaviours=4),
                                  max_paths=200000, wall_s=400))
    else:
        ops = (BA, BB, BC, ENTER, EXIT, EXIT_EXC, IGN_A, IGN_C, SUB, UNSUB, UNSUB_ALL)
        k = 5
        for f in ops:
            if f in (EXIT, EXIT_EXC):
                continue
            hs.append(Harness('hub k=%d first=%s' % (k, OPNAMES[f]), body, params=dict(k=k, first=f, ops=ops),
                              bounds=dict(steps=k, opcodes=[OPNAMES[o] for o in ops], listeners=3, message_classes=3,
                                          priorities='symbolic distinct in [0,3]', handler_behaviours=4),
                              max_paths=2000000, wall_s=3000))
    return hs
