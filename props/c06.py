"""C06 - Every dataset in a collection carries exactly one subset per subset group."""
import numpy as np

from vtools.runner import Harness
from .common import kf_active
from .structs import World, NDATA

ID = 'C06'
LEVEL = 'model_checking'
EXPLANATION = ('bounded model checking of the real DataCollection / SubsetGroup / CommandStack: every operation sequence up to '
               'the depth bound (operations and arguments are solver-chosen integers, all-SAT enumeration) is executed on the '
               'real objects from several initial states; after every step the invariant (one subset per live group and '
               'dataset, groups list exactly those, members share state/label/style, removed datasets and groups keep no '
               'membership) is checked and each member\'s mask is proved (z3) equal to the group selection over symbolic data')

OPS = ['append d0', 'append d1', 'append d2', 'remove d0', 'remove d1', 'remove d2', 'new group', 'remove group 0', 'remove group 1',
       'set state of group 0', 'label group 0 like the last group', 'style of group 0', 'merge first two datasets', 'clear',
       'extend [d1, d2]', 'do AddData(d2)', 'do RemoveData(d0)', 'undo', 'redo']


def apply_op(w, op):
    """returns False if the operation is not applicable in this state"""
    from glue.core.command import AddData, RemoveData
    dc = w.dc
    groups = w.live_groups()
    name = OPS[op]
    if name.startswith('append'):
        dc.append(w.data[int(name[-1])])
    elif name.startswith('remove d'):
        d = w.data[int(name[-1])]
        if d not in dc._data:
            return False
        dc.remove(d)
    elif name == 'new group':
        if len(groups) >= 3:
            return False
        w.new_group()
    elif name.startswith('remove group'):
        k = int(name[-1])
        if k >= len(groups):
            return False
        w.removed_groups.append(groups[k])
        dc.remove_subset_group(groups[k])
    elif name == 'set state of group 0':
        if not groups:
            return False
        groups[0].subset_state = w.new_state()
    elif name == 'label group 0 like the last group':
        if len(groups) < 2:
            return False
        groups[0].label = groups[-1].label
    elif name == 'style of group 0':
        if not groups:
            return False
        groups[0].style.color = '#123456'
        groups[0].style.alpha = 0.25
    elif name == 'merge first two datasets':
        ds = [d for d in dc._data if d in w.data]
        if len(ds) < 2 or len(dc._data) != len(ds):
            return False
        dc.merge(ds[0], ds[1])
    elif name == 'clear':
        dc.clear()
    elif name == 'extend [d1, d2]':
        dc.extend([w.data[1], w.data[2]])
    elif name == 'do AddData(d2)':
        w.stack.do(AddData(data=w.data[2]))
    elif name == 'do RemoveData(d0)':
        if w.data[0] not in dc._data:
            return False
        w.stack.do(RemoveData(data=w.data[0]))
    elif name == 'undo':
        if not w.stack.can_undo_redo()[0]:
            return False
        w.stack.undo()
    elif name == 'redo':
        if not w.stack.can_undo_redo()[1]:
            return False
        w.stack.redo()
    return True


def body(env, k=4, first=None, initial=None, ops=None):
    ops = list(range(len(OPS))) if ops is None else ops
    init = env.choice('initial', 3) if initial is None else initial
    w = World(env, initial=init)
    w.check_invariant('initial state %d' % init)
    for step in range(k):
        op = first if (step == 0 and first is not None) else ops[env.choice('op%d' % step, len(ops))]
        w.trace.append(OPS[op])
        if not apply_op(w, op):
            env.assume(False)
        env.count('transitions')
        env.state((tuple(d.label for d in w.dc._data), len(w.live_groups()), tuple(len(d.subsets) for d in w.data),
                   len(w.stack._command_stack), len(w.stack._undo_stack)))
        w.check_invariant('after step %d' % step)
    env.count('traces')


def _applicable(initial, op):
    from vtools.env import ConcreteEnv
    try:
        return bool(apply_op(World(ConcreteEnv(), initial=initial), op))
    except Exception:
        return True


def harnesses(tier):
    hs = []
    if tier == 'quick':
        k = 4
        skip = ('append d2', 'remove d2', 'remove group 1', 'style of group 0', 'extend [d1, d2]')
        ops = [i for i, o in enumerate(OPS) if o not in skip]
        inits = (0, 1)
    else:
        k = 5
        ops = list(range(len(OPS)))
        inits = (0, 1, 2)
    for f in ops:
        if OPS[f] in ('undo', 'redo', 'remove d2', 'merge first two datasets'):
            continue          # not applicable as a first step from the initial states
        for ini in inits:
            if not _applicable(ini, f):
                continue
            hs.append(Harness('k=%d init=%d first=%s' % (k, ini, OPS[f]), body, params=dict(k=k, first=f, initial=ini, ops=ops),
                              max_paths=3000000, wall_s=3400, weight=3,
                              bounds=dict(steps=k, operations=[OPS[i] for i in ops], datasets=NDATA, groups_max=3, initial_state=ini, first=OPS[f])))
    return hs


def body_prefixed(env, prefix=(), k=2):
    w = World(env, initial=0)
    for name in prefix:
        w.trace.append(name)
        if not apply_op(w, OPS.index(name)):
            env.assume(False)
        w.check_invariant('after prefix step %s' % name)
    for step in range(k):
        op = env.choice('op%d' % step, len(OPS))
        w.trace.append(OPS[op])
        if not apply_op(w, op):
            env.assume(False)
        env.count('transitions')
        env.state((tuple(d.label for d in w.dc._data), len(w.live_groups()), tuple(len(d.subsets) for d in w.data)))
        w.check_invariant('after step %d' % step)
    env.count('traces')
