#!/usr/bin/env python3
"""validate MANIFEST.json and evidence/*.json against the schemas (run with python3-vt)"""
import json, sys, glob, jsonschema
ok = True
ms = json.load(open('/root/.vp/MANIFEST.schema.json'))
es = json.load(open('/root/.vp/EVIDENCE.schema.json'))
try:
    m = json.load(open('/verif/MANIFEST.json'))
    jsonschema.validate(m, ms)
    print('MANIFEST ok: %d checks, %d n/a' % (len(m['checks']), len(m.get('not_applicable', []))))
except Exception as e:
    ok = False
    print('MANIFEST INVALID', e)
for f in sorted(glob.glob('/verif/evidence/*.json')):
    try:
        jsonschema.validate(json.load(open(f)), es)
        print('ok', f)
    except Exception as e:
        ok = False
        print('INVALID', f, str(e)[:300])
sys.exit(0 if ok else 1)
