"""E1: CrossHair runner.  A harness file holds private functions with PEP-316 contracts calling the real
glue function; each condition is checked in its own process under a fixed per-condition timeout."""
import os
import re
import sys
import ast
import time
import subprocess
from concurrent.futures import ThreadPoolExecutor

from .runner import VERIF, GLUE_SRC


def function_lines(path):
    tree = ast.parse(open(path).read())
    return {n.name: n.lineno for n in tree.body if isinstance(n, ast.FunctionDef)}


def run_condition(path, func, lineno, timeout_s, extra_env=None):
    env = dict(os.environ)
    env['PYTHONPATH'] = os.pathsep.join([VERIF, GLUE_SRC, os.path.dirname(path)])
    env.update(extra_env or {})
    cmd = [sys.executable, '-W', 'ignore', '-m', 'crosshair', 'check', '--report_all',
           '--per_condition_timeout', str(timeout_s), '--per_path_timeout', str(max(5, timeout_s // 4)),
           '%s:%d' % (path, lineno + 1)]
    t0 = time.time()
    try:
        p = subprocess.run(cmd, env=env, capture_output=True, text=True, timeout=timeout_s * 3 + 120, cwd=VERIF)
        out = p.stdout + p.stderr
    except subprocess.TimeoutExpired as e:
        out = 'TIMEOUT ' + str(e)
    dt = time.time() - t0
    verdict = 'inconclusive'
    detail = out.strip()[-600:]
    cex = None
    if 'Confirmed over all paths' in out:
        verdict = 'confirmed'
    m = re.search(r'error: (.*)', out)
    if m:
        verdict = 'counterexample'
        detail = m.group(1)
        m2 = re.search(r'when calling (\w+)\((.*?)\)(?: \(which (?:returns|raises).*)?$', m.group(1).strip())
        if m2:
            cex = m2.group(2)
    elif 'Not confirmed' in out:
        verdict = 'not_confirmed'
    elif 'Unable to meet precondition' in out:
        verdict = 'unmet_precondition'
    return dict(func=func, verdict=verdict, detail=detail, cex=cex, wall_s=round(dt, 2))


def run_file(path, funcs, timeout_s, procs=8, extra_env=None):
    """funcs: list of function names in `path`.  Returns list of result dicts."""
    lines = function_lines(path)
    with ThreadPoolExecutor(max_workers=procs) as ex:
        futs = [ex.submit(run_condition, path, f, lines[f], timeout_s, extra_env) for f in funcs]
        return [f.result() for f in futs]


def parse_cex_args(cex):
    """'b1=0, e1=5, s1=4' or '0, 5, 4' -> list / dict of python values"""
    try:
        node = ast.parse('f(%s)' % cex, mode='eval').body
        args = [ast.literal_eval(a) for a in node.args]
        kwargs = {k.arg: ast.literal_eval(k.value) for k in node.keywords}
        return args, kwargs
    except Exception:
        return None, None
