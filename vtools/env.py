"""Env: one harness body, two interpretations.

A harness is a function ``body(env)``.  In *symbolic* mode ``env.real(...)``
etc. return solver variables and ``env.same/true`` register obligations that
z3 must prove on every path.  In *concrete* mode (replay of a counterexample
in a fresh interpreter with real numpy and unpatched glue, or differential
validation of the oracle on random inputs) the same calls return python/numpy
values and the checks are evaluated numerically.  The oracle is therefore
written once and is itself exercised against the real code.
"""
import math
import random
import fractions

import numpy as np


class CheckFailed(Exception):
    def __init__(self, label, detail=''):
        Exception.__init__(self, '%s %s' % (label, detail))
        self.label = label
        self.detail = detail


class Skip(Exception):
    """concrete mode: assumption not met by these inputs"""


def _json_val(v):
    if isinstance(v, (bool, np.bool_)):
        return bool(v)
    if isinstance(v, (int, np.integer)):
        return int(v)
    if isinstance(v, fractions.Fraction):
        v = float(v)
    if isinstance(v, (float, np.floating)):
        v = float(v)
        if math.isnan(v):
            return 'nan'
        if math.isinf(v):
            return 'inf' if v > 0 else '-inf'
        return v
    return v


def _unjson_val(v):
    if v == 'nan':
        return float('nan')
    if v == 'inf':
        return math.inf
    if v == '-inf':
        return -math.inf
    return v


class BaseEnv:
    symbolic = False

    def reals(self, name, shape, **kw):
        a = np.empty(shape, dtype=object)
        for idx in np.ndindex(*shape):
            a[idx] = self.real('%s[%s]' % (name, ','.join(map(str, idx))), **kw)
        return self._wrap(a, 'f')

    def bools(self, name, shape):
        a = np.empty(shape, dtype=object)
        for idx in np.ndindex(*shape):
            a[idx] = self.bool('%s[%s]' % (name, ','.join(map(str, idx))))
        return self._wrap(a, 'b')

    def ints(self, name, shape, lo, hi):
        a = np.empty(shape, dtype=object)
        for idx in np.ndindex(*shape):
            a[idx] = self.int('%s[%s]' % (name, ','.join(map(str, idx))), lo, hi)
        return self._wrap(a, 'i')


class SymEnv(BaseEnv):
    symbolic = True

    def __init__(self, ctx):
        from . import symcore as sc, symnp as sn
        self.sc, self.sn = sc, sn
        self.ctx = ctx
        ctx.witness_fn = self.witness
        self.vars = {}
        self.choices = {}

    def _wrap(self, a, kind):
        r = self.sn.wrap(a)
        if a.size == 0:
            r._empty_kind = kind
        return r

    def real(self, name, nan=False, inf=False, lo=None, hi=None):
        v = self.sc.real(name, nan=nan, inf=inf)
        self.vars[name] = v
        if name in self.vars and self.vars[name] is not v:
            pass
        if lo is not None and hi is not None and lo > hi:
            raise self.sc.PathAbort()
        fin = self.sc.Not_(v.inf)
        if lo is not None:
            self.ctx.constrain_fresh(self.sc.Or_(v.nan, self.sc.And_(fin, v.v >= self.sc.rv(lo))) if (nan or inf) else v.v >= self.sc.rv(lo))
        if hi is not None:
            self.ctx.constrain_fresh(self.sc.Or_(v.nan, self.sc.And_(fin, v.v <= self.sc.rv(hi))) if (nan or inf) else v.v <= self.sc.rv(hi))
        return v

    def bool(self, name):
        v = self.sc.boolean(name)
        self.vars[name] = v
        return v

    def int(self, name, lo, hi):
        """symbolic integer in [lo, hi] (stays symbolic until code needs an index)"""
        v = self.sc.integer(name, lo, hi)
        self.vars[name] = v
        return v

    def choice(self, name, n):
        """solver-enumerated choice in range(n): concrete python int on each path"""
        import z3
        if name in self.vars:
            raise ValueError('choice name reused: %s' % name)
        self.vars[name] = self.sc.SymInt(z3.Int(name))
        k = self.ctx.choose_fresh(name, n)
        self.choices[name] = k
        return k

    def assume(self, cond):
        self.ctx.assume(cond)

    def witness(self, model):
        out = {}
        for k, v in self.vars.items():
            out[k] = _json_val(self.sn.eval_scalar(v, model))
        return out

    # -- obligations
    def true(self, cond, label):
        self.ctx.oblige(cond, label, self.witness)

    def true_all(self, conds, label):
        """one obligation for a conjunction of conditions (one solver query)"""
        sc = self.sc
        ts = []
        for c in conds:
            if isinstance(c, sc.SymBool):
                ts.append(c.t)
            else:
                ts.append(sc.TRUE if bool(c) else sc.FALSE)
        self.ctx.oblige(sc.And_(*ts), label, self.witness)

    def same(self, a, b, label):
        """a and b (scalars or arrays) are identical values (NaN == NaN), same shape"""
        sn, sc = self.sn, self.sc
        aa = np.asarray(sn._as_objarr(a))
        bb = np.asarray(sn._as_objarr(b))
        if aa.shape != bb.shape:
            self.ctx.oblige(sc.FALSE, '%s: shape %s != %s' % (label, aa.shape, bb.shape), self.witness)
            return
        self.ctx.oblige(sn.same_arrays(aa, bb), label, self.witness)

    def close(self, a, b, tol, label):
        """|a-b| <= tol elementwise (finite), or both nan"""
        sn, sc = self.sn, self.sc
        aa = np.asarray(sn._as_objarr(a))
        bb = np.asarray(sn._as_objarr(b))
        if aa.shape != bb.shape:
            self.ctx.oblige(sc.FALSE, '%s: shape %s != %s' % (label, aa.shape, bb.shape), self.witness)
            return
        terms = []
        for i in np.ndindex(*aa.shape):
            x, y = sc.sreal(sc.lift(aa[i])), sc.sreal(sc.lift(bb[i]))
            d = abs(x - y)
            terms.append(sc.Or_(sc.And_(x.nan, y.nan), sc.And_(sc.Not_(x.nan), sc.Not_(y.nan), (d <= tol).t)))
        self.ctx.oblige(sc.And_(*terms), label, self.witness)

    def note(self, s):
        self.ctx.note(s)

    def count(self, key, n=1):
        st = self.ctx.ex.stats
        st[key] = st.get(key, 0) + n

    def state(self, key):
        self.ctx.ex.state_set.add(key)

    def ite(self, c, a, b):
        return self.sc.ite(self.sc.sbool(c), a, b)


class ConcreteEnv(BaseEnv):
    """values come from a witness dict, else from a seeded RNG"""

    def __init__(self, values=None, rng=None, grid=8):
        self.values = dict(values or {})
        self.rng = rng or random.Random(0)
        self.grid = grid
        self.used = {}
        self.checks = 0

    def _wrap(self, a, kind):
        dt = {'f': float, 'b': bool, 'i': np.int64}[kind]
        return np.array(a.tolist(), dtype=dt).reshape(a.shape)

    def _get(self, name, gen):
        if name in self.values:
            v = _unjson_val(self.values[name])
        else:
            v = gen()
        self.used[name] = _json_val(v)
        return v

    def real(self, name, nan=False, inf=False, lo=None, hi=None):
        def gen():
            r = self.rng.random()
            if nan and r < 0.12:
                return float('nan')
            if inf and r < 0.2:
                return math.inf if self.rng.random() < 0.5 else -math.inf
            a = -4.0 if lo is None else float(lo)
            b = 4.0 if hi is None else float(hi)
            k = self.rng.randint(math.ceil(a * self.grid), math.floor(b * self.grid))
            return k / self.grid
        return np.float64(self._get(name, gen))

    def bool(self, name):
        return np.bool_(self._get(name, lambda: self.rng.random() < 0.5))

    def int(self, name, lo, hi):
        return int(self._get(name, lambda: self.rng.randint(lo, hi)))

    def choice(self, name, n):
        return int(self._get(name, lambda: self.rng.randrange(n)))

    def assume(self, cond):
        if not bool(cond):
            raise Skip()

    def true(self, cond, label):
        self.checks += 1
        if not bool(np.all(cond)):
            raise CheckFailed(label)

    def true_all(self, conds, label):
        for i, c in enumerate(conds):
            self.true(c, '%s [#%d]' % (label, i))

    def same(self, a, b, label):
        self.checks += 1
        a, b = np.asarray(a), np.asarray(b)
        if a.shape != b.shape:
            raise CheckFailed(label, 'shape %s != %s' % (a.shape, b.shape))
        if a.dtype.kind in 'fc' or b.dtype.kind in 'fc':
            # the claim is over real arithmetic: two floating-point evaluation orders of the same expression may differ in the
            # last bits, which is not a disagreement (4e-13 relative is far below any witness the solver produces)
            fa, fb = a.astype(float), b.astype(float)
            with np.errstate(all='ignore'):
                ok = bool(np.all((fa == fb) | (np.isnan(fa) & np.isnan(fb)) |
                                 (np.isfinite(fa) & np.isfinite(fb) & (np.abs(fa - fb) <= 4e-13 * np.maximum(np.abs(fa), np.abs(fb))))))
        else:
            ok = np.array_equal(a, b)
        if not ok:
            raise CheckFailed(label, 'impl=%s oracle=%s' % (a.tolist(), b.tolist()))

    def close(self, a, b, tol, label):
        self.checks += 1
        a, b = np.asarray(a, dtype=float), np.asarray(b, dtype=float)
        if a.shape != b.shape:
            raise CheckFailed(label, 'shape %s != %s' % (a.shape, b.shape))
        ok = np.all((np.isnan(a) & np.isnan(b)) | (np.abs(a - b) <= tol) | (a == b))
        if not ok:
            raise CheckFailed(label, 'impl=%s oracle=%s' % (a.tolist(), b.tolist()))

    def note(self, s):
        pass

    def count(self, key, n=1):
        pass

    def state(self, key):
        pass

    def ite(self, c, a, b):
        return a if c else b


# helpers usable by harness bodies in both modes ---------------------------------

def b_and(*xs):
    r = xs[0]
    for x in xs[1:]:
        r = r & x
    return r


def b_or(*xs):
    r = xs[0]
    for x in xs[1:]:
        r = r | x
    return r


def implies(a, b):
    return (~a) | b if not isinstance(a, bool) else ((not a) or b)
