"""./check selftest [CXX ...]: every stored change that breaks a property (seeded/<ID>-<X>/ from independent sub-agents and
mutants/unfix_*.patch = reverse of each repair) is applied to a scratch worktree of /repo and the corresponding check must
report a replay-confirmed VIOLATION; the unchanged tree must pass.  Not part of the per-property commands."""
import os
import re
import sys
import json
import glob
import subprocess

from .runner import VERIF

# which property each reverse-fix patch must be caught by
UNFIX_PROPS = {
    'make_Hub_delay_callbacks': ['C07'], 'VersionedDict_rejects': ['C12'], 'PolygonalROI_closed': ['C08'], 'PolygonalROI_rotate': ['C08'],
    'pixel2world_world2pixel': ['C04'], 'SliceSubsetState_to_mask': ['C04'], 'join_component_view': ['C04'],
    'categorical_ndarray_codes': ['C04'], 'compute_statistic_with': ['C10'], 'compute_histogram_moved': ['C10'],
    'parsed_scalar_view': ['C14'], 'frb_numpy_scalar': ['C16'], 'removing_a_dataset': ['C06'], 'undo_of_AddData': ['C13'],
    'undo_of_ApplySubsetState': ['C13'], 'restored_derived_link': ['C02'], 'rotated_rectangle_on_categorical': ['C09'], 'composite_loader_keeps': ['C02'], 'world_component_array_views': ['C04'],
}


def run_mutant(patch, prop, extra=()):
    p = subprocess.run([os.path.join(VERIF, 'tools_mutant.sh'), patch, prop] + list(extra), cwd=VERIF, capture_output=True, text=True)
    out = p.stdout + p.stderr
    m = re.search(r'mutant exit code: (\d+)', out)
    code = int(m.group(1)) if m else -1
    if 'PATCH DOES NOT APPLY' in out:
        code = -2
    return code, out


def main(args):
    only = [a.upper() for a in args]
    rows = []
    for d in sorted(glob.glob(os.path.join(VERIF, 'seeded', '*'))):
        meta = json.load(open(os.path.join(d, 'meta.json')))
        prop = meta['property']
        if only and prop not in only:
            continue
        patch = os.path.join(d, 'patch_current.diff')
        if not os.path.exists(patch):
            patch = os.path.join(d, 'patch.diff')
        code, out = run_mutant(patch, prop)
        rows.append((os.path.basename(d), prop, code))
        print('%-10s %-4s %s' % (os.path.basename(d), prop, {1: 'DETECTED', 0: 'MISSED', 3: 'INCONCLUSIVE', -2: 'PATCH DOES NOT APPLY'}.get(code, code)), flush=True)
    for patch in sorted(glob.glob(os.path.join(VERIF, 'mutants', 'unfix_*.patch'))):
        name = os.path.basename(patch)
        props = [v for k, v in UNFIX_PROPS.items() if k in name]
        for prop in (props[0] if props else []):
            if only and prop not in only:
                continue
            code, out = run_mutant(patch, prop)
            rows.append((name, prop, code))
            print('%-60s %-4s %s' % (name[:60], prop, {1: 'DETECTED', 0: 'MISSED', 3: 'INCONCLUSIVE', -2: 'PATCH DOES NOT APPLY'}.get(code, code)), flush=True)
    missed = [r for r in rows if r[2] != 1]
    print('selftest: %d changes, %d detected, %d not detected' % (len(rows), len(rows) - len(missed), len(missed)))
    return 0 if not missed else 1
