"""symnp: numpy arrays whose elements are SMT terms.

``SymArray`` is a genuine ``np.ndarray`` subclass (dtype=object) holding
``SymBool/SymInt/SymReal`` scalars.  Structural operations (reshape,
transpose, basic/integer indexing, broadcast, strides) are done by *real
numpy*; elementwise ufuncs and reductions build terms.  Anything not
modelled raises ``EngineLimit`` (fail closed).
"""
import math
import numbers
import operator
import types
import functools
import itertools

import numpy as np
import z3

from . import symcore as sc
from .symcore import (Sym, SymBool, SymInt, SymReal, EngineLimit, lift, sreal, sbool, ite,
                      And_, Or_, Not_, If_, TRUE, FALSE, ZERO, ONE, rv)

# Sym scalars are numbers as far as np.isscalar / isinstance(x, Number) go
numbers.Real.register(SymReal)
numbers.Integral.register(SymInt)

_STATE = {'active': False, 'stubs_hit': set()}


def stub_hit(name):
    _STATE['stubs_hit'].add(name)


def active():
    return sc.Ctx.cur is not None


# --------------------------------------------------------------------------
# lifting

def obj(a):
    """anything array-like -> plain object ndarray of Sym (or a Sym scalar)"""
    if isinstance(a, Sym):
        return a
    if isinstance(a, FlatView):
        a = a._r()
    if isinstance(a, np.ndarray):
        if a.dtype == object:
            b = a.view(np.ndarray)
            # make sure every element is a Sym
            need = False
            for x in b.flat:
                if not isinstance(x, Sym):
                    need = True
                    break
            if not need:
                return b
            out = np.empty(b.shape, dtype=object)
            for i in np.ndindex(*b.shape):
                out[i] = lift(b[i])
            return out
        if a.dtype.kind not in 'biuf':
            raise EngineLimit('cannot lift array of dtype %s' % a.dtype)
        out = np.empty(a.shape, dtype=object)
        if a.ndim == 0:
            out[()] = lift(a[()])
            return out
        flat = out.reshape(-1) if out.flags.c_contiguous else None
        for i, x in enumerate(a.reshape(-1)):
            flat[i] = lift(x)
        return out
    if isinstance(a, (list, tuple)):
        return obj(_from_nested(a))
    return lift(a)


def _from_nested(a):
    """list/tuple possibly containing Sym / SymArrays -> object ndarray"""
    def conv(x):
        if isinstance(x, np.ndarray):
            return [conv(y) for y in x] if x.ndim > 0 else x[()]
        if isinstance(x, (list, tuple)):
            return [conv(y) for y in x]
        return x
    nested = conv(a)

    def shape_of(x):
        if isinstance(x, list):
            if not x:
                return (0,)
            s0 = shape_of(x[0])
            for y in x[1:]:
                if shape_of(y) != s0:
                    raise EngineLimit('ragged nested sequence')
            return (len(x),) + s0
        return ()
    shp = shape_of(nested)
    out = np.empty(shp, dtype=object)

    def fill(x, idx):
        if isinstance(x, list):
            for i, y in enumerate(x):
                fill(y, idx + (i,))
        else:
            out[idx] = lift(x)
    fill(nested, ())
    return out


def wrap(a):
    if isinstance(a, SymArray):
        return a
    if isinstance(a, Sym):
        return a
    a = np.asarray(a, dtype=object) if not isinstance(a, np.ndarray) else a
    return a.view(SymArray)


def has_sym(x):
    if isinstance(x, (Sym, SymArray, FlatView)):
        return True
    if isinstance(x, np.ndarray):
        return x.dtype == object and x.size > 0 and any(isinstance(e, Sym) for e in x.flat)
    if isinstance(x, (list, tuple)):
        return any(has_sym(e) for e in x)
    return False


def kind_of(a):
    """'b', 'i', 'f' of an object array of Sym (by first element; empty -> 'f')"""
    a = a.view(np.ndarray) if isinstance(a, np.ndarray) else np.asarray(a, dtype=object)
    for x in a.flat:
        if isinstance(x, SymBool):
            return 'b'
        if isinstance(x, SymInt):
            return 'i'
        return 'f'
    return getattr(a, '_empty_kind', 'f')


def is_symbool_array(k):
    return isinstance(k, np.ndarray) and k.dtype == object and k.size > 0 and isinstance(k.flat[0], SymBool)


def is_symint_array(k):
    return isinstance(k, np.ndarray) and k.dtype == object and k.size > 0 and isinstance(k.flat[0], SymInt)


def concretise_mask(m):
    """fork on every element: object array of SymBool -> bool array"""
    m = m.view(np.ndarray)
    out = np.empty(m.shape, dtype=bool)
    for i in np.ndindex(*m.shape):
        out[i] = bool(m[i])
    return out


def concretise_ints(m):
    m = m.view(np.ndarray)
    out = np.empty(m.shape, dtype=np.intp)
    for i in np.ndindex(*m.shape):
        out[i] = operator.index(m[i])
    return out


# --------------------------------------------------------------------------
# scalar kernels

def _isnan(x):
    x = lift(x)
    if isinstance(x, SymReal):
        return SymBool(x.t_isnan())
    return SymBool(FALSE)


def _isfinite(x):
    x = lift(x)
    if isinstance(x, SymReal):
        return SymBool(x.t_isfinite())
    return SymBool(TRUE)


def _isinf(x):
    x = lift(x)
    if isinstance(x, SymReal):
        return SymBool(x.t_isinf())
    return SymBool(FALSE)


def _logical(op):
    def f(a, b):
        return op(sbool(a), sbool(b))
    return f


def _not(a):
    return ~sbool(a)


def _invert(a):
    if isinstance(a, SymBool):
        return ~a
    raise EngineLimit('bitwise invert of non-bool')


def _bitop(op):
    def f(a, b):
        a, b = lift(a), lift(b)
        if isinstance(a, SymBool) and isinstance(b, SymBool):
            return op(a, b)
        raise EngineLimit('bitwise op on non-bool symbolic values')
    return f


def s_min2(a, b):
    # np.minimum propagates nan
    a, b = lift(a), lift(b)
    if isinstance(a, SymInt) and isinstance(b, SymInt):
        return SymInt(If_(a.t <= b.t, a.t, b.t))
    a, b = sreal(a), sreal(b)
    r = ite(a <= b, a, b)
    return SymReal(r.v, Or_(a.nan, b.nan), And_(r.inf, Not_(Or_(a.nan, b.nan))))


def s_max2(a, b):
    a, b = lift(a), lift(b)
    if isinstance(a, SymInt) and isinstance(b, SymInt):
        return SymInt(If_(a.t >= b.t, a.t, b.t))
    a, b = sreal(a), sreal(b)
    r = ite(a >= b, a, b)
    return SymReal(r.v, Or_(a.nan, b.nan), And_(r.inf, Not_(Or_(a.nan, b.nan))))


def _floor(x):
    x = lift(x)
    if isinstance(x, SymReal):
        return x.floor_real()
    return x


def _ceil(x):
    x = lift(x)
    if isinstance(x, SymReal):
        return -((-x).floor_real())
    return x


def _rint(x):
    x = lift(x)
    if isinstance(x, SymReal):
        return SymReal(z3.ToReal(x.to_int('rint').t), x.nan, x.inf)
    return x


def _sqrt(x):
    return sreal(x).sqrt()


def _log10(x):
    stub_hit('S-log10')
    return sreal(x).log10()


def _abs(x):
    return abs(lift(x))


def _sign(x):
    x = sreal(x)
    return SymReal(If_(x.v > 0, ONE, If_(x.v < 0, z3.RealVal(-1), ZERO)), x.nan, FALSE)


def _cos(x):
    x = lift(x)
    if hasattr(x, 'cos'):
        return x.cos()
    raise EngineLimit('cos of symbolic real')


def _sin(x):
    x = lift(x)
    if hasattr(x, 'sin'):
        return x.sin()
    raise EngineLimit('sin of symbolic real')


def _hypot(a, b):
    a, b = sreal(a), sreal(b)
    return (a * a + b * b).sqrt()


def _fp(f, n):
    return np.frompyfunc(f, n, 1)


def _lifted2(f):
    def g(a, b):
        return f(lift(a), lift(b))
    return g


UF = {
    np.add: _fp(_lifted2(operator.add), 2),
    np.subtract: _fp(_lifted2(operator.sub), 2),
    np.multiply: _fp(_lifted2(operator.mul), 2),
    np.true_divide: _fp(_lifted2(operator.truediv), 2),
    np.floor_divide: _fp(_lifted2(operator.floordiv), 2),
    np.remainder: _fp(_lifted2(operator.mod), 2),
    np.power: _fp(lambda a, b: lift(a) ** b, 2),
    np.greater: _fp(_lifted2(operator.gt), 2),
    np.greater_equal: _fp(_lifted2(operator.ge), 2),
    np.less: _fp(_lifted2(operator.lt), 2),
    np.less_equal: _fp(_lifted2(operator.le), 2),
    np.equal: _fp(_lifted2(operator.eq), 2),
    np.not_equal: _fp(_lifted2(operator.ne), 2),
    np.bitwise_and: _fp(_bitop(operator.and_), 2),
    np.bitwise_or: _fp(_bitop(operator.or_), 2),
    np.bitwise_xor: _fp(_bitop(operator.xor), 2),
    np.logical_and: _fp(_logical(operator.and_), 2),
    np.logical_or: _fp(_logical(operator.or_), 2),
    np.logical_xor: _fp(_logical(operator.xor), 2),
    np.invert: _fp(_invert, 1),
    np.logical_not: _fp(_not, 1),
    np.negative: _fp(lambda a: -lift(a), 1),
    np.positive: _fp(lambda a: lift(a), 1),
    np.absolute: _fp(_abs, 1),
    np.isnan: _fp(_isnan, 1),
    np.isfinite: _fp(_isfinite, 1),
    np.isinf: _fp(_isinf, 1),
    np.minimum: _fp(s_min2, 2),
    np.maximum: _fp(s_max2, 2),
    np.floor: _fp(_floor, 1),
    np.ceil: _fp(_ceil, 1),
    np.rint: _fp(_rint, 1),
    np.sqrt: _fp(_sqrt, 1),
    np.log10: _fp(_log10, 1),
    np.sign: _fp(_sign, 1),
    np.cos: _fp(_cos, 1),
    np.sin: _fp(_sin, 1),
    np.hypot: _fp(_hypot, 2),
    np.square: _fp(lambda a: lift(a) * lift(a), 1),
}

_BOOL_UFUNCS = {np.greater, np.greater_equal, np.less, np.less_equal, np.equal, np.not_equal, np.logical_and, np.logical_or,
                np.logical_xor, np.logical_not, np.isnan, np.isfinite, np.isinf}

# --------------------------------------------------------------------------
# reductions (python folds over lists of Sym)


def fold(f, items, init=None):
    it = iter(items)
    acc = next(it) if init is None else init
    for x in it:
        acc = f(acc, x)
    return acc


def r_or(xs):
    return SymBool(Or_(*[sbool(x).t for x in xs]))


def r_and(xs):
    return SymBool(And_(*[sbool(x).t for x in xs]))


def r_sum(xs):
    if not xs:
        return SymReal(ZERO)
    xs = [x.as_int() if isinstance(x, SymBool) else x for x in xs]
    return fold(operator.add, xs)


def r_prod(xs):
    if not xs:
        return SymInt(1)
    return fold(operator.mul, xs)


def r_min(xs):
    if not xs:
        raise ValueError('zero-size array to reduction operation minimum which has no identity')
    return fold(s_min2, xs)


def r_max(xs):
    if not xs:
        raise ValueError('zero-size array to reduction operation maximum which has no identity')
    return fold(s_max2, xs)


def r_nanmin(xs, sign=-1):
    """nan iff all nan, else min over non-nan"""
    if not xs:
        raise ValueError('zero-size array to reduction operation fmin which has no identity')
    xs = [sreal(x) for x in xs]
    acc = xs[0]
    for x in xs[1:]:
        better = (x < acc) if sign < 0 else (x > acc)
        take = SymBool(Or_(acc.nan, And_(Not_(x.nan), better.t)))
        acc = ite(take, x, acc)
    return acc


def r_nanmax(xs):
    return r_nanmin(xs, sign=1)


def r_nansum(xs):
    xs = [sreal(x) for x in xs]
    return r_sum([ite(SymBool(x.nan), SymReal(ZERO), x) for x in xs]) if xs else SymReal(ZERO)


def r_count_notnan(xs):
    return r_sum([SymInt(If_(sreal(x).nan, z3.IntVal(0), z3.IntVal(1))) for x in xs]) if xs else SymInt(0)


def r_mean(xs):
    if not xs:
        return SymReal(ZERO, TRUE)
    return r_sum(xs) / len(xs)


def r_nanmean(xs):
    if not xs:
        return SymReal(ZERO, TRUE)
    n = r_count_notnan(xs)
    s = r_nansum(xs)
    r = s / ite(n == 0, SymInt(1), n)
    return SymReal(r.v, Or_(r.nan, (n == 0).t), r.inf)


def sort_network(xs, lt=None):
    """sorted list of Sym via compare-exchange (nan sorted last, like numpy)."""
    xs = [sreal(x) for x in xs]
    n = len(xs)
    xs = list(xs)

    def le(a, b):
        # a before b?   non-nan before nan; else a <= b
        return SymBool(Or_(b.nan, And_(Not_(a.nan), (a <= b).t)))
    for i in range(n):
        for j in range(0, n - 1 - i):
            a, b = xs[j], xs[j + 1]
            c = le(a, b)
            xs[j], xs[j + 1] = ite(c, a, b), ite(c, b, a)
    return xs


def _select(xs, k):
    """xs[k] with symbolic int k"""
    k = lift(k)
    if not isinstance(k, SymInt):
        raise EngineLimit('select with non-int index')
    acc = xs[-1]
    for i in range(len(xs) - 2, -1, -1):
        acc = ite(k == i, xs[i], acc)
    return acc


def _lerp(a, b, g):
    """numpy's _lerp, literally (matters only for infinite operands)"""
    d = b - a
    r1 = a + d * g
    r2 = b - d * (1 - g)
    if isinstance(g, Sym):
        return ite(g >= sreal(0.5), r2, r1)
    return r2 if g >= 0.5 else r1


def r_percentile_sorted(srt, n_valid, q):
    """numpy 'linear' percentile of the first n_valid entries of sorted list srt
    (n_valid: python int or SymInt); q concrete in [0,100]."""
    import fractions
    qf = fractions.Fraction(q) / 100
    if isinstance(n_valid, int):
        if n_valid == 0:
            return SymReal(ZERO, TRUE)
        fr = qf * (n_valid - 1)
        lo = math.floor(fr)
        hi = min(lo + 1, n_valid - 1)
        g = fr - lo
        return _lerp(srt[lo], srt[hi], sreal(g))
    n = n_valid
    pos = sreal(qf) * (n - 1).as_real()
    lo = pos.to_int('floor')
    hi = ite(lo + 1 <= n - 1, lo + 1, n - 1)
    g = pos - lo.as_real()
    a, b = _select(srt, lo), _select(srt, hi)
    r = _lerp(a, b, g)
    return SymReal(r.v, Or_(r.nan, (n == 0).t), And_(r.inf, Not_((n == 0).t)))


def _median_sorted(srt, n):
    """np.median of the first n (int or SymInt) entries of the sorted list: mean of the middle one/two"""
    if isinstance(n, int):
        if n == 0:
            return SymReal(ZERO, TRUE)
        if n % 2:
            return srt[n // 2]
        return (srt[n // 2 - 1] + srt[n // 2]) / 2
    h = n // 2
    odd = (n % 2) == 1
    a = _select(srt, ite(odd, h, h - 1))
    b = _select(srt, h)
    r = ite(odd, b, (a + b) / 2)
    return SymReal(r.v, Or_(r.nan, (n == 0).t), And_(r.inf, Not_((n == 0).t)))


def r_median(xs):
    if not xs:
        return SymReal(ZERO, TRUE)
    anynan = Or_(*[sreal(x).nan for x in xs])
    r = _median_sorted(sort_network(xs), len(xs))
    return SymReal(r.v, Or_(r.nan, anynan), And_(r.inf, Not_(anynan)))


def r_nanmedian(xs):
    if not xs:
        return SymReal(ZERO, TRUE)
    return _median_sorted(sort_network(xs), r_count_notnan(xs))


def r_percentile(q):
    def f(xs):
        if not xs:
            return SymReal(ZERO, TRUE)
        anynan = Or_(*[sreal(x).nan for x in xs])
        r = r_percentile_sorted(sort_network(xs), len(xs), q)
        return SymReal(r.v, Or_(r.nan, anynan), And_(r.inf, Not_(anynan)))
    return f


def r_nanpercentile(q):
    def f(xs):
        if not xs:
            return SymReal(ZERO, TRUE)
        return r_percentile_sorted(sort_network(xs), r_count_notnan(xs), q)
    return f


def reduce_axis(a, axis, f, keepdims=False):
    a = obj(a) if not (isinstance(a, np.ndarray) and a.dtype == object) else a.view(np.ndarray)
    if isinstance(a, Sym):
        return f([a])
    if axis is None:
        r = f(list(a.ravel()))
        if keepdims:
            out = np.empty((1,) * a.ndim, dtype=object)
            out[...] = r
            return wrap(out)
        return r
    if isinstance(axis, (int, np.integer)):
        axis = (int(axis),)
    axis = tuple(int(ax) % a.ndim for ax in axis)
    keep = [i for i in range(a.ndim) if i not in axis]
    out = np.empty([a.shape[i] for i in keep], dtype=object)
    moved = np.moveaxis(a, keep, range(len(keep)))
    for idx in np.ndindex(*out.shape):
        out[idx] = f(list(moved[idx].ravel()))
    if keepdims:
        shp = [1 if i in axis else a.shape[i] for i in range(a.ndim)]
        out = out.reshape(shp)
    if out.ndim == 0:
        return out[()]
    return wrap(out)


REDUCE = {np.add: r_sum, np.multiply: r_prod, np.logical_or: r_or, np.bitwise_or: r_or,
          np.logical_and: r_and, np.bitwise_and: r_and, np.minimum: r_min, np.maximum: r_max}


# --------------------------------------------------------------------------

def _to_kind(a, kind):
    """astype for object arrays of Sym"""
    a = obj(a)
    scalar = isinstance(a, Sym)
    arr = np.empty((), dtype=object) if scalar else np.empty(a.shape, dtype=object)
    src = None if scalar else a

    def conv(x):
        if kind == 'b':
            return sbool(x)
        if kind == 'f':
            return sreal(x)
        if kind == 'i':
            if isinstance(x, SymInt):
                return x
            if isinstance(x, SymBool):
                return x.as_int()
            return x.to_int('trunc')
        raise EngineLimit('astype %r' % kind)
    if scalar:
        return conv(a)
    for i in np.ndindex(*a.shape):
        arr[i] = conv(src[i])
    res = wrap(arr)
    if arr.size == 0:
        res._empty_kind = kind
    return res


def _dtype_kind(dtype):
    if dtype is None:
        return None
    if dtype is bool or dtype is np.bool_:
        return 'b'
    if dtype is float:
        return 'f'
    if dtype is int:
        return 'i'
    if dtype is object:
        return None
    try:
        k = np.dtype(dtype).kind
    except TypeError:
        raise EngineLimit('dtype %r' % (dtype,))
    if k == 'b':
        return 'b'
    if k in 'iu':
        return 'i'
    if k == 'f':
        return 'f'
    if k == 'O':
        return None
    raise EngineLimit('dtype kind %r' % k)


class SymArray(np.ndarray):
    __array_priority__ = 100

    def __array_finalize__(self, o):
        k = getattr(o, '_empty_kind', None)
        if k is not None:
            self._empty_kind = k

    def __array_ufunc__(self, ufunc, method, *inputs, out=None, **kw):
        return array_ufunc(ufunc, method, inputs, out, kw)

    def __array_function__(self, func, types_, args, kwargs):
        f = AF.get(func)
        if f is not None:
            return f(*args, **kwargs)
        if func in AF_PASS:
            return func._implementation(*args, **kwargs)
        raise EngineLimit('numpy function %s not modelled for symbolic arrays' % getattr(func, '__name__', func))

    # ---- indexing
    def __getitem__(self, k):
        g = _as_full_symint_index(self, k)
        if g is not None:
            return sym_gather(self, g)
        k = _prep_index(k)
        r = np.ndarray.__getitem__(self, k)
        return r

    def __setitem__(self, k, v):
        base = self.view(np.ndarray)
        if is_symbool_array(k):
            # a[mask] = v  -> elementwise ite (no fork) for scalar or same-shape-broadcastable... only scalar v
            m = np.broadcast_to(k.view(np.ndarray), base.shape)
            if isinstance(v, np.ndarray) and v.ndim > 0:
                # data-dependent placement: fork
                kk = concretise_mask(k)
                np.ndarray.__setitem__(self, kk, obj(v))
                return
            v = lift(v[()] if isinstance(v, np.ndarray) else v)
            for i in np.ndindex(*base.shape):
                base[i] = ite(m[i], v, base[i])
            return
        k = _prep_index(k)
        if not isinstance(v, (np.ndarray, list, tuple, Sym, int, float, bool, np.generic)):
            v = np.asarray(v)       # pandas Series and other array-likes
        if isinstance(v, np.ndarray):
            v = obj(v)
        elif isinstance(v, (list, tuple)):
            v = obj(v)
        elif not isinstance(v, Sym):
            v = lift(v)
        np.ndarray.__setitem__(self, k, v)

    @property
    def flat(self):
        return FlatView(self)

    @flat.setter
    def flat(self, value):
        self.view(np.ndarray).flat = obj(value) if not isinstance(value, Sym) else value

    # ---- methods implemented in C for base class
    def astype(self, dtype, *a, **kw):
        k = _dtype_kind(dtype)
        if k is None:
            return wrap(self.view(np.ndarray).copy())
        return _to_kind(self, k)

    def any(self, axis=None, out=None, keepdims=False, **kw):
        return reduce_axis(self, axis, r_or, keepdims)

    def all(self, axis=None, out=None, keepdims=False, **kw):
        return reduce_axis(self, axis, r_and, keepdims)

    def sum(self, axis=None, dtype=None, out=None, keepdims=False, **kw):
        return reduce_axis(self, axis, r_sum, keepdims)

    def min(self, axis=None, out=None, keepdims=False, **kw):
        return reduce_axis(self, axis, r_min, keepdims)

    def max(self, axis=None, out=None, keepdims=False, **kw):
        return reduce_axis(self, axis, r_max, keepdims)

    def mean(self, axis=None, dtype=None, out=None, keepdims=False, **kw):
        return reduce_axis(self, axis, r_mean, keepdims)

    def nonzero(self):
        return np.nonzero(concretise_mask(_to_kind(self, 'b')))

    def tolist(self):
        return self.view(np.ndarray).tolist()

    def dot(self, b):
        return af_dot(self, b)

    def __bool__(self):
        if self.size != 1:
            raise ValueError('The truth value of an array with more than one element is ambiguous.')
        return bool(self.view(np.ndarray).reshape(-1)[0])

    def __float__(self):
        if self.size != 1:
            raise TypeError('only size-1 arrays')
        return float(self.view(np.ndarray).reshape(-1)[0])

    def __index__(self):
        if self.size != 1:
            raise TypeError('only size-1 arrays')
        return operator.index(self.view(np.ndarray).reshape(-1)[0])
    __int__ = __index__

    def __repr__(self):
        return 'SymArray(%s)' % (self.view(np.ndarray).tolist(),)


def _as_full_symint_index(arr, k):
    """k indexes every dimension of arr with integer arrays of which at least one is symbolic -> list of arrays"""
    if not isinstance(k, tuple):
        k = (k,)
    if len(k) != arr.ndim or not any(is_symint_array(x) or isinstance(x, SymInt) for x in k):
        return None
    out = []
    for x in k:
        if isinstance(x, SymInt) or is_symint_array(x):
            out.append(x)
        elif isinstance(x, (int, np.integer)):
            out.append(x)
        elif isinstance(x, np.ndarray) and x.dtype.kind in 'iu':
            out.append(x)
        else:
            return None
    return out


def sym_gather(arr, idx):
    """arr[idx0, idx1, ...] with symbolic integer index arrays: an if-then-else chain over the source positions
    (no fork per element); IndexError where an index can be out of range"""
    base = arr.view(np.ndarray)
    idx = [np.asarray(_as_objarr(obj(i)) if not isinstance(i, (int, np.integer)) else i, dtype=object) for i in idx]
    idx = np.broadcast_arrays(*idx)
    shape = idx[0].shape
    out = np.empty(shape, dtype=object)
    positions = list(np.ndindex(*base.shape))
    if not positions:
        raise IndexError('index into an empty symbolic array')
    for o in np.ndindex(*shape):
        ks = []
        valid = TRUE
        for d, i in enumerate(idx):
            kk = lift(i[o])
            if isinstance(kk, SymReal):
                raise IndexError('arrays used as indices must be of integer (or boolean) type')
            n = base.shape[d]
            valid = And_(valid, kk.t >= -n, kk.t < n)
            ks.append(SymInt(If_(kk.t < 0, kk.t + n, kk.t)))
        if not bool(SymBool(valid)):
            raise IndexError('index out of bounds (symbolic index)')
        acc = None
        for pos in reversed(positions):
            if acc is None:
                acc = base[pos]
                continue
            cond = SymBool(And_(*[ks[d].t == pos[d] for d in range(len(pos))]))
            acc = ite(cond, base[pos], acc)
        out[o] = acc
    if out.ndim == 0:
        return out[()]
    return wrap(out)


class FlatView:
    """stand-in for ndarray.flat of a SymArray (numpy's flatiter drops the subclass and cannot be indexed by
    symbolic masks): reads go to a 1-d SymArray, writes go through to the base when it is contiguous"""

    def __init__(self, arr):
        self._arr = arr

    def _r(self):
        return self._arr.reshape(-1)

    def __len__(self):
        return self._arr.size

    def __iter__(self):
        return iter(self._r())

    def __array__(self, dtype=None, copy=None):
        return self._r().view(np.ndarray)

    def __getitem__(self, k):
        return self._r()[k]

    def __setitem__(self, k, v):
        if not self._arr.flags.c_contiguous:
            raise EngineLimit('write through .flat of a non-contiguous symbolic array')
        r = self._arr.reshape(-1)
        if not np.shares_memory(r, self._arr):
            raise EngineLimit('write through .flat would not alias')
        r[k] = v

    def __getattr__(self, name):
        return getattr(self._r(), name)


def _flat_binop(name):
    def op(self, o):
        o = o._r() if isinstance(o, FlatView) else o
        return getattr(self._r(), name)(o)
    return op


for _n in ('__add__', '__radd__', '__sub__', '__rsub__', '__mul__', '__rmul__', '__truediv__', '__rtruediv__',
           '__lt__', '__le__', '__gt__', '__ge__', '__eq__', '__ne__', '__and__', '__or__', '__xor__',
           '__rand__', '__ror__', '__rxor__'):
    setattr(FlatView, _n, _flat_binop(_n))
FlatView.__invert__ = lambda self: ~self._r()
FlatView.__hash__ = None


def _prep_index(k):
    if isinstance(k, tuple):
        return tuple(_prep_index1(x) for x in k)
    return _prep_index1(k)


def _prep_index1(k):
    if isinstance(k, SymBool):
        return bool(k)
    if isinstance(k, SymInt):
        return operator.index(k)
    if isinstance(k, slice):
        def c(x):
            return operator.index(x) if isinstance(x, SymInt) else x
        return slice(c(k.start), c(k.stop), c(k.step))
    if is_symbool_array(k):
        return concretise_mask(k)
    if is_symint_array(k):
        return concretise_ints(k)
    if isinstance(k, np.ndarray) and k.dtype == object and k.size == 0:
        return np.zeros(k.shape, dtype=bool if getattr(k, '_empty_kind', 'i') == 'b' else np.intp)
    if isinstance(k, list) and has_sym(k):
        return _prep_index1(obj(k))
    return k


def array_ufunc(ufunc, method, inputs, out, kw):
    if method == '__call__':
        if ufunc in UF:
            where = kw.pop('where', True)
            if where is not True:
                raise EngineLimit('ufunc where=')
            kw.pop('dtype', None)
            kw.pop('casting', None)
            ins = [_as_objarr(obj(i)) for i in inputs]
            res = UF[ufunc](*ins)
            res = wrap(res) if isinstance(res, np.ndarray) else res
            if isinstance(res, np.ndarray) and res.size == 0:
                if ufunc in _BOOL_UFUNCS:
                    res._empty_kind = 'b'
                else:
                    ks = [getattr(i, '_empty_kind', None) for i in inputs if isinstance(i, np.ndarray)]
                    ks = [k for k in ks if k]
                    if ks:
                        res._empty_kind = 'f' if 'f' in ks else ks[0]
            if out is not None:
                o = out[0]
                if isinstance(o, np.ndarray) and o.dtype == object:
                    o.view(np.ndarray)[...] = res
                    return o
                raise EngineLimit('ufunc out= into a concrete array (aliasing cannot be kept)')
            return res
        if ufunc is np.matmul:
            a, b = [obj(i) for i in inputs]
            return af_matmul(a, b)
        raise EngineLimit('ufunc %s not modelled' % ufunc.__name__)
    if method == 'reduce':
        if ufunc in REDUCE:
            return reduce_axis(inputs[0], kw.get('axis', 0), REDUCE[ufunc], kw.get('keepdims', False))
        raise EngineLimit('reduce of %s' % ufunc.__name__)
    if method == 'outer':
        a, b = [obj(i) for i in inputs]
        a = np.asarray(a, dtype=object)
        b = np.asarray(b, dtype=object)
        return array_ufunc(ufunc, '__call__', (a.reshape(a.shape + (1,) * b.ndim), b), None, kw)
    raise EngineLimit('ufunc method %s' % method)


# Sym scalars meeting numpy arrays / numpy functions
def _sym_array_ufunc(self, ufunc, method, *inputs, out=None, **kw):
    return array_ufunc(ufunc, method, inputs, out, kw)


def _sym_array_function(self, func, types_, args, kwargs):
    f = AF.get(func)
    if f is not None:
        return f(*args, **kwargs)
    if func in AF_PASS:
        return func._implementation(*args, **kwargs)
    raise EngineLimit('numpy function %s not modelled for symbolic scalars' % getattr(func, '__name__', func))


Sym.__array_ufunc__ = _sym_array_ufunc
Sym.__array_function__ = _sym_array_function


# ---- numpy function overrides ------------------------------------------------

def af_where(c, *rest):
    if not rest:
        if has_sym(c):
            return np.nonzero(concretise_mask(_to_kind(obj(c), 'b')))
        return np.nonzero(c)
    x, y = rest
    if not has_sym(c):
        c = np.asarray(c)
        if not has_sym(x) and not has_sym(y):
            return np.where(c, x, y)
    co = obj(c)
    xo = obj(x)
    yo = obj(y)
    f = _fp(lambda cc, a, b: ite(sbool(cc), a, b), 3)
    r = f(_as_objarr(co), _as_objarr(xo), _as_objarr(yo))
    return wrap(r) if isinstance(r, np.ndarray) else r


def af_nonzero(a):
    return np.nonzero(concretise_mask(_to_kind(obj(a), 'b')))


def _mk_red(f):
    def g(a, axis=None, out=None, keepdims=False, **kw):
        if kw.get('where', True) is not True:
            raise EngineLimit('reduction where=')
        return reduce_axis(a, axis, f, keepdims)
    return g


def af_percentile(a, q, axis=None, **kw):
    if not isinstance(q, (int, float, np.integer, np.floating)):
        raise EngineLimit('vector/symbolic percentile q')
    return reduce_axis(a, axis, r_percentile(q), kw.get('keepdims', False))


def af_nanpercentile(a, q, axis=None, **kw):
    if not isinstance(q, (int, float, np.integer, np.floating)):
        raise EngineLimit('vector/symbolic percentile q')
    return reduce_axis(a, axis, r_nanpercentile(q), kw.get('keepdims', False))


def af_zeros_like(a, dtype=None, **kw):
    k = _dtype_kind(dtype) if dtype is not None else kind_of(a)
    return P.zeros(np.shape(a), dtype={'b': bool, 'i': int, 'f': float}[k])


def af_ones_like(a, dtype=None, **kw):
    k = _dtype_kind(dtype) if dtype is not None else kind_of(a)
    return P.ones(np.shape(a), dtype={'b': bool, 'i': int, 'f': float}[k])


def _bt(a, shape):
    return np.broadcast_to._implementation(a, shape, subok=True)


def af_broadcast_to(a, shape, subok=False):
    if isinstance(a, Sym):
        o = np.empty((), dtype=object)
        o[()] = a
        a = o
    return wrap(_bt(np.asarray(a).view(np.ndarray), shape))


def af_broadcast_arrays(*args, subok=False):
    # (dispatched here only when at least one argument is symbolic: lift the others so that later mixed
    # indexing / comparisons stay inside the shim)
    args = [np.asarray(_as_objarr(a)) for a in args]
    args = [a if a.dtype == object else (np.asarray(obj(a), dtype=object) if a.dtype.kind in 'biuf' else a) for a in args]
    shape = np.broadcast_shapes(*[a.shape for a in args])
    return tuple(wrap(_bt(a.view(np.ndarray), shape))
                 if a.dtype == object else np.broadcast_to(a, shape) for a in args)


def _as_objarr(a):
    if isinstance(a, Sym):
        o = np.empty((), dtype=object)
        o[()] = a
        return o
    return a


def af_isin(element, test_elements, **kw):
    if kw.get('invert'):
        raise EngineLimit('isin invert')
    e = obj(element)
    t = obj(np.asarray(test_elements)) if not has_sym(test_elements) else obj(test_elements)
    tl = list(np.asarray(t, dtype=object).ravel())

    def f(x):
        return SymBool(Or_(*[(x == y).t for y in tl]))
    r = _fp(f, 1)(_as_objarr(e))
    return wrap(r) if isinstance(r, np.ndarray) else r


def af_isclose(a, b, rtol=1e-05, atol=1e-08, equal_nan=False):
    a, b = obj(a), obj(b)

    def f(x, y):
        x, y = sreal(x), sreal(y)
        d = abs(x - y)
        tol = sreal(atol) + sreal(rtol) * abs(y)
        fin = And_(x.t_isfinite(), y.t_isfinite())
        r = Or_(And_(fin, (d <= tol).t), And_(Not_(fin), (x == y).t))
        if equal_nan:
            r = Or_(r, And_(x.nan, y.nan))
        return SymBool(r)
    r = _fp(f, 2)(_as_objarr(a), _as_objarr(b))
    return wrap(r) if isinstance(r, np.ndarray) else r


def af_allclose(a, b, **kw):
    return bool(reduce_axis(af_isclose(a, b, **kw), None, r_and))


def af_stack_like(func):
    def g(arrs, *a, **kw):
        arrs = [np.asarray(obj(x)) if not isinstance(obj(x), Sym) else _as_objarr(obj(x)) for x in arrs]
        return wrap(func._implementation(arrs, *a, **kw))
    return g


def af_matmul(a, b):
    """numpy matmul semantics (1-d promotion, batch broadcasting) on object arrays of Sym"""
    a, b = np.asarray(obj(a), dtype=object), np.asarray(obj(b), dtype=object)
    if a.ndim == 0 or b.ndim == 0:
        raise ValueError('matmul: Input operand does not have enough dimensions')
    a1, b1 = a.ndim == 1, b.ndim == 1
    a2 = a[None, :] if a1 else a
    b2 = b[:, None] if b1 else b
    if a2.shape[-1] != b2.shape[-2]:
        raise ValueError('matmul: shape mismatch %s %s' % (a.shape, b.shape))
    batch = np.broadcast_shapes(a2.shape[:-2], b2.shape[:-2])
    A = np.broadcast_to(a2, batch + a2.shape[-2:])
    B = np.broadcast_to(b2, batch + b2.shape[-2:])
    n, k, m = a2.shape[-2], a2.shape[-1], b2.shape[-1]
    out = np.empty(batch + (n, m), dtype=object)
    for idx in np.ndindex(*batch):
        AA, BB = A[idx], B[idx]
        for i in range(n):
            for j in range(m):
                out[idx + (i, j)] = r_sum([AA[i, t] * BB[t, j] for t in range(k)]) if k else SymReal(ZERO)
    if a1:
        out = out[..., 0, :]
    if b1:
        out = out[..., 0]
    if out.ndim == 0:
        return out[()]
    return wrap(out)


def af_dot(a, b):
    a, b = np.asarray(obj(a), dtype=object), np.asarray(obj(b), dtype=object)
    if a.ndim == 0 or b.ndim == 0:
        return wrap(np.asarray(array_ufunc(np.multiply, '__call__', (a, b), None, {})))
    if a.ndim <= 2 and b.ndim <= 2:
        return af_matmul(a, b)
    raise EngineLimit('dot ndim>2')


def af_tensordot(a, b, axes=2):
    a, b = np.asarray(obj(a), dtype=object), np.asarray(obj(b), dtype=object)
    # generic via moveaxis + matmul
    if isinstance(axes, int):
        axes_a = list(range(a.ndim - axes, a.ndim))
        axes_b = list(range(axes))
    else:
        axes_a, axes_b = axes
        axes_a = [axes_a] if isinstance(axes_a, int) else list(axes_a)
        axes_b = [axes_b] if isinstance(axes_b, int) else list(axes_b)
    axes_a = [x % a.ndim for x in axes_a]
    axes_b = [x % b.ndim for x in axes_b]
    free_a = [i for i in range(a.ndim) if i not in axes_a]
    free_b = [i for i in range(b.ndim) if i not in axes_b]
    at = a.transpose(free_a + axes_a).reshape(int(np.prod([a.shape[i] for i in free_a], dtype=int)), -1)
    bt = b.transpose(axes_b + free_b).reshape(-1, int(np.prod([b.shape[i] for i in free_b], dtype=int)))
    r = np.asarray(af_matmul(at, bt), dtype=object).reshape([a.shape[i] for i in free_a] + [b.shape[i] for i in free_b])
    return wrap(r)


def af_round(a, decimals=0, out=None):
    if decimals != 0:
        raise EngineLimit('round decimals')
    return array_ufunc(np.rint, '__call__', (a,), None, {})


def af_sort(a, axis=-1, **kw):
    a = np.asarray(obj(a), dtype=object)
    if a.ndim != 1:
        raise EngineLimit('sort ndim != 1')
    return wrap(np.array(sort_network(list(a)) + [None], dtype=object)[:-1])


def af_unique(ar, return_index=False, return_inverse=False, return_counts=False, axis=None, **kw):
    if return_index or return_inverse or return_counts or axis is not None:
        raise EngineLimit('unique options')
    xs = sort_network(list(np.asarray(obj(ar), dtype=object).ravel()))
    out = []
    for x in xs:
        if out and bool(x == out[-1]):          # data-dependent length: solver-decided fork
            continue
        out.append(x)
    r = np.empty(len(out), dtype=object)
    for i, x in enumerate(out):
        r[i] = x
    res = wrap(r)
    if len(out) == 0:
        res._empty_kind = 'f'
    return res


def af_require(a, dtype=None, requirements=None, **kw):
    reqs = set()
    if requirements:
        reqs = set(r.upper()[0] for r in ([requirements] if isinstance(requirements, str) else requirements))
    a = a if isinstance(a, np.ndarray) else wrap(np.asarray(_as_objarr(obj(a))))
    k = _dtype_kind(dtype)
    if k is not None and kind_of(a) != k:
        return _to_kind(a, k)
    if ('W' in reqs and not a.flags.writeable) or 'O' in reqs:
        return wrap(a.view(np.ndarray).copy())
    return a


def af_shape(a):
    return np.asarray(_as_objarr(a)).shape


def af_size(a, axis=None):
    return np.asarray(_as_objarr(a)).size if axis is None else np.asarray(_as_objarr(a)).shape[axis]


def af_ndim(a):
    return np.asarray(_as_objarr(a)).ndim


def af_copy(a, **kw):
    return wrap(np.asarray(_as_objarr(a)).view(np.ndarray).copy())


def af_linspace(start, stop, num=50, endpoint=True, retstep=False, dtype=None, axis=0):
    num = operator.index(num)
    if retstep or not endpoint:
        raise EngineLimit('linspace options')
    start, stop = sreal(start), sreal(stop)
    out = np.empty(num, dtype=object)
    for i in range(num):
        if num == 1:
            out[i] = start
        elif i == num - 1:
            out[i] = stop
        else:
            out[i] = start + (stop - start) * sreal(sc.fractions.Fraction(i, num - 1))
    return wrap(out)


def af_meshgrid(*xi, indexing='xy', **kw):
    if kw.get('sparse'):
        raise EngineLimit('meshgrid options')
    copy = kw.get('copy', True)
    xs = [np.asarray(obj(x), dtype=object) if not isinstance(obj(x), Sym) else _as_objarr(obj(x)).reshape(1) for x in xi]
    n = len(xs)
    shape = [x.size for x in xs]
    out = []
    for i, x in enumerate(xs):
        shp = [1] * n
        shp[i] = x.size
        out.append(x.reshape(shp))
    if indexing == 'xy' and n > 1:
        out[0] = out[0].reshape((1, -1) + (1,) * (n - 2))
        out[1] = out[1].reshape((-1, 1) + (1,) * (n - 2))
        shape[0], shape[1] = shape[1], shape[0]
    return tuple(wrap(_bt(o, shape).copy() if copy else _bt(o, shape)) for o in out)


def af_array_equal(a, b, **kw):
    a, b = np.asarray(_as_objarr(obj(a))), np.asarray(_as_objarr(obj(b)))
    if a.shape != b.shape:
        return False
    return bool(reduce_axis(array_ufunc(np.equal, '__call__', (a, b), None, {}), None, r_and))


def af_prod(a, axis=None, **kw):
    return reduce_axis(a, axis, r_prod, kw.get('keepdims', False))


def af_diff(a, n=1, axis=-1, **kw):
    a = wrap(np.asarray(obj(a), dtype=object))
    if n != 1 or a.ndim != 1:
        raise EngineLimit('diff options')
    return a[1:] - a[:-1]


def af_cumsum(a, axis=None, **kw):
    a = np.asarray(obj(a), dtype=object).ravel()
    out = np.empty(a.shape, dtype=object)
    acc = None
    for i, x in enumerate(a):
        acc = x if acc is None else acc + x
        out[i] = acc
    return wrap(out)


def af_clip(a, a_min=None, a_max=None, **kw):
    r = a
    if a_min is not None:
        r = array_ufunc(np.maximum, '__call__', (r, a_min), None, {})
    if a_max is not None:
        r = array_ufunc(np.minimum, '__call__', (r, a_max), None, {})
    return r


def af_searchsorted(a, v, side='left', sorter=None):
    if sorter is not None:
        raise EngineLimit('searchsorted sorter')
    a = list(np.asarray(obj(a), dtype=object).ravel())
    vo = obj(v)

    def f(x):
        # number of elements strictly less (left) / <= (right)
        cnt = [(y < x) if side == 'left' else (y <= x) for y in a]
        return r_sum([c.as_int() for c in cnt]) if cnt else SymInt(0)
    r = _fp(f, 1)(_as_objarr(vo))
    return wrap(r) if isinstance(r, np.ndarray) else r


AF = {
    np.where: af_where, np.nonzero: af_nonzero,
    np.any: _mk_red(r_or), np.all: _mk_red(r_and),
    np.sum: _mk_red(r_sum), np.prod: af_prod,
    np.min: _mk_red(r_min), np.max: _mk_red(r_max), np.amin: _mk_red(r_min), np.amax: _mk_red(r_max),
    np.mean: _mk_red(r_mean), np.median: _mk_red(r_median),
    np.nanmin: _mk_red(r_nanmin), np.nanmax: _mk_red(r_nanmax), np.nansum: _mk_red(r_nansum),
    np.nanmean: _mk_red(r_nanmean), np.nanmedian: _mk_red(r_nanmedian),
    np.percentile: af_percentile, np.nanpercentile: af_nanpercentile,
    np.zeros_like: af_zeros_like, np.ones_like: af_ones_like,
    np.broadcast_to: af_broadcast_to, np.broadcast_arrays: af_broadcast_arrays,
    np.isin: af_isin, np.isclose: af_isclose, np.allclose: af_allclose,
    np.hstack: af_stack_like(np.hstack), np.vstack: af_stack_like(np.vstack),
    np.column_stack: af_stack_like(np.column_stack), np.stack: af_stack_like(np.stack),
    np.concatenate: af_stack_like(np.concatenate),
    np.matmul: af_matmul, np.dot: af_dot, np.tensordot: af_tensordot,
    np.round: af_round, np.around: af_round, np.sort: af_sort,
    np.shape: af_shape, np.size: af_size, np.ndim: af_ndim, np.copy: af_copy,
    np.linspace: af_linspace, np.meshgrid: af_meshgrid, np.array_equal: af_array_equal,
    np.diff: af_diff, np.cumsum: af_cumsum, np.clip: af_clip, np.searchsorted: af_searchsorted, np.unique: af_unique, np.require: af_require,
}

# numpy functions whose python implementation only does structural work and
# may run unmodified on the object array
AF_PASS = {np.moveaxis, np.transpose, np.reshape, np.ravel, np.squeeze, np.expand_dims, np.swapaxes,
           np.atleast_1d, np.atleast_2d, np.atleast_3d, np.rollaxis, np.flip, np.take, np.repeat,
           np.tile, np.roll, np.split, np.array_split, np.delete, np.insert, np.append, np.iterable,
           np.flipud, np.fliplr, np.rot90, np.diagonal, np.trace, np.result_type, np.broadcast_shapes,
           np.may_share_memory, np.shares_memory, np.apply_along_axis, np.empty_like, np.full_like}


# --------------------------------------------------------------------------
# module-global `np` proxy

class Proxy(types.ModuleType):
    """Stands in for the module global ``np`` of glue modules under test.
    Forwards everything to real numpy except the constructors that the array
    protocols cannot intercept."""

    def __getattr__(self, name):
        return getattr(np, name)

    @staticmethod
    def _const(a):
        return wrap(obj(a))

    def zeros(self, shape, dtype=float, **kw):
        a = np.zeros(shape, dtype=dtype, **kw)
        if not active() or a.dtype.kind not in 'biuf' or (a.dtype.kind in 'iu' and a.dtype.itemsize == 1):
            return a            # (raw byte buffers stay real: they are re-viewed with structured dtypes)
        r = self._const(a)
        if r.size == 0:
            r._empty_kind = _dtype_kind(dtype)
        return r

    def ones(self, shape, dtype=float, **kw):
        a = np.ones(shape, dtype=dtype, **kw)
        if not active() or a.dtype.kind not in 'biuf':
            return a
        return self._const(a)

    def full(self, shape, fill_value, dtype=None, **kw):
        if isinstance(fill_value, Sym):
            out = np.empty(shape, dtype=object)
            out[...] = fill_value
            return wrap(out)
        a = np.full(shape, fill_value, dtype=dtype, **kw)
        if not active() or a.dtype.kind not in 'biuf':
            return a
        return self._const(a)

    def empty(self, shape, dtype=float, **kw):
        return self.zeros(shape, dtype=dtype)

    def array(self, a, dtype=None, copy=True, **kw):
        if has_sym(a):
            o = obj(a)
            if isinstance(o, Sym):
                o2 = np.empty((), dtype=object)
                o2[()] = o
                o = o2
            o = o.copy() if (copy and isinstance(a, np.ndarray)) else o
            k = _dtype_kind(dtype)
            r = wrap(o)
            return _to_kind(r, k) if k is not None and kind_of(r) != k else r
        return np.array(a, dtype=dtype, copy=copy, **kw)

    def asarray(self, a, dtype=None, **kw):
        if has_sym(a):
            if isinstance(a, SymArray):
                k = _dtype_kind(dtype)
                return _to_kind(a, k) if k is not None and kind_of(a) != k else a
            return self.array(a, dtype=dtype, copy=False)
        return np.asarray(a, dtype=dtype, **kw)

    asanyarray = asarray

    def isscalar(self, x):
        return isinstance(x, Sym) or np.isscalar(x)

    @staticmethod
    def _ulp(x):
        """fresh symbolic magnitude of one unit in the last place of x: |x|*2**-53 <= ulp <= |x|*2**-52
        (positive and tiny for x == 0)"""
        c = sc.cur()
        e = z3.FreshReal('ulp')
        ax = If_(x.v < 0, -x.v, x.v)
        c.assume(z3.And(e > 0, e >= ax * z3.RealVal('1/9007199254740992'),
                        e <= ax * z3.RealVal('1/4503599627370496') + z3.RealVal('1/1000000000000000000000000000000')))
        return e

    def spacing(self, x):
        if has_sym(x):
            stub_hit('S-spacing')
            x = sreal(x)
            e = self._ulp(x)
            # numpy: spacing has the sign of x
            return SymReal(If_(x.v < 0, -e, e), x.nan, FALSE)
        return np.spacing(x)

    def nextafter(self, a, b):
        if has_sym(a) or has_sym(b):
            stub_hit('S-nextafter')
            a, b = sreal(a), sreal(b)
            e = self._ulp(a)
            up = bool(b > a)
            if not up and bool(b == a):
                return a
            return SymReal(a.v + e if up else a.v - e, Or_(a.nan, b.nan), FALSE)
        return np.nextafter(a, b)

    def log10(self, x, *a, **kw):
        if active() and isinstance(x, (float, int, np.floating, np.integer)) and not a and not kw:
            sc.log10_anchor(x)
        return np.log10(x, *a, **kw)

    def require(self, a, dtype=None, requirements=None, **kw):
        if has_sym(a):
            return af_require(a, dtype=dtype, requirements=requirements, **kw)
        return np.require(a, dtype=dtype, requirements=requirements, **kw)

    def broadcast_arrays(self, *args, **kw):
        if active():
            # while exploring, the results may later be indexed by symbolic masks: keep them inside the shim
            return af_broadcast_arrays(*args, **kw)
        return np.broadcast_arrays(*args, **kw)

    def cos(self, x, *a, **kw):
        if active() and isinstance(x, (float, int, np.floating, np.integer)) and not a and not kw:
            stub_hit('S-trig-dyadic')
            return trig(x)[0]
        return np.cos(x, *a, **kw)

    def sin(self, x, *a, **kw):
        if active() and isinstance(x, (float, int, np.floating, np.integer)) and not a and not kw:
            stub_hit('S-trig-dyadic')
            return trig(x)[1]
        return np.sin(x, *a, **kw)

    def arange(self, *a, **kw):
        if has_sym(a):
            a = [operator.index(x) if isinstance(x, SymInt) else x for x in a]
            if has_sym(a):
                raise EngineLimit('arange with symbolic real')
        return np.arange(*a, **kw)


TRIG_BITS = 24


def trig(theta):
    """(cos, sin) of a concrete angle rounded to dyadic rationals with TRIG_BITS fractional bits while an
    exploration is active (keeps the rational arithmetic of the solver small; the rounding error of 2**-25 is
    covered by the boundary bands of the harnesses); exact doubles otherwise."""
    c, s = math.cos(theta), math.sin(theta)
    if active():
        k = float(2 ** TRIG_BITS)
        return np.float64(round(c * k) / k), np.float64(round(s * k) / k)
    return np.float64(c), np.float64(s)


P = Proxy('np_proxy')


def plain_if_constant(a):
    """a symbolic array all of whose elements are constants -> the plain numpy array (else unchanged)"""
    if not isinstance(a, np.ndarray) or a.dtype != object:
        return a
    flat = [lift(e) if not isinstance(e, Sym) else e for e in np.asarray(a, dtype=object).ravel()]
    vals = []
    for e in flat:
        t = z3.simplify(e.t if not isinstance(e, SymReal) else e.v)
        if isinstance(e, SymBool) and (sc.is_t(t) or sc.is_f(t)):
            vals.append(sc.is_t(t))
        elif isinstance(e, SymInt) and z3.is_int_value(t):
            vals.append(t.as_long())
        else:
            return a
    if not vals:
        k = getattr(a, '_empty_kind', None) or 'b'
        return np.zeros(np.shape(a), dtype={'b': bool, 'i': int}.get(k, float))
    return np.array(vals).reshape(np.shape(a))


class LiftingProxy(Proxy):
    """like Proxy, but index-like constructors (arange / repeat) give arrays inside the shim as well, for code that
    later indexes such arrays with symbolic masks (real ndarrays cannot be indexed by symbolic arrays)"""

    def arange(self, *a, **kw):
        r = Proxy.arange(self, *a, **kw)
        if active() and r.dtype.kind in 'iuf':
            return self._const(r)
        return r

    def repeat(self, a, *args, **kw):
        r = np.repeat(a, *args, **kw)
        if active() and isinstance(r, np.ndarray) and r.dtype.kind in 'iuf':
            return self._const(r)
        return r


PL = LiftingProxy('np_lifting_proxy')


def as_strided_subok(x, shape=None, strides=None, subok=False, writeable=True):
    from numpy.lib.stride_tricks import as_strided
    if isinstance(x, np.ndarray) and x.dtype == object and x.size == 0 and shape is not None and int(np.prod(shape)) > 0:
        # empty arrays report stride 0, so glue's unbroadcast() asks for a 1-element view of a 0-size buffer: with real
        # floats that reads an arbitrary (unused) value, with object arrays it would dereference garbage
        out = np.empty(tuple(int(v) for v in shape), dtype=object)
        for i in np.ndindex(*out.shape):
            out[i] = SymReal(ZERO)
        return wrap(out)
    return as_strided(x, shape=shape, strides=strides, subok=True, writeable=writeable)


def coerce_numeric_stub(real_fn):
    @functools.wraps(real_fn)
    def f(arr):
        if isinstance(arr, SymArray):
            stub_hit('S-coerce')
            return arr
        return real_fn(arr)
    return f


_PATCHED = []


def patch_glue(modules=None):
    """Rebind module-global ``np`` (and a few names) in the glue modules under
    test.  Function bodies are untouched."""
    import importlib
    import sys
    names = modules or ['glue.core.subset', 'glue.core.data', 'glue.core.component', 'glue.core.component_link',
                        'glue.core.roi', 'glue.utils.array', 'glue.utils.geometry', 'glue.core.coordinates',
                        'glue.core.coordinate_helpers', 'glue.core.fixed_resolution_buffer', 'glue.core.joins',
                        'glue.core.data_derived', 'glue.core.link_helpers', 'glue.core.util',
                        'glue.core.subset_group', 'glue.core.edit_subset_mode', 'glue.core.parse',
                        'glue.core.state', 'glue.core.link_manager', 'glue.core.roi_pretransforms']
    for n in names:
        m = importlib.import_module(n)
        if getattr(m, 'np', None) is np:
            m.np = P
            _PATCHED.append(n)
    ua = sys.modules['glue.utils.array']
    if not getattr(ua.as_strided, '_verif', False):
        as_strided_subok._verif = True
        ua.as_strided = as_strided_subok
    comp = sys.modules['glue.core.component']
    if not getattr(comp.coerce_numeric, '_verif', False):
        w = coerce_numeric_stub(comp.coerce_numeric)
        w._verif = True
        comp.coerce_numeric = w
    return list(_PATCHED)


# --------------------------------------------------------------------------
# constructors of symbolic arrays

def _name(prefix, idx):
    return '%s[%s]' % (prefix, ','.join(map(str, idx)))


def sym_reals(name, shape, nan=False, inf=False):
    a = np.empty(shape, dtype=object)
    for idx in np.ndindex(*shape):
        a[idx] = sc.real(_name(name, idx), nan=nan, inf=inf)
    return wrap(a)


def sym_bools(name, shape):
    a = np.empty(shape, dtype=object)
    for idx in np.ndindex(*shape):
        a[idx] = sc.boolean(_name(name, idx))
    return wrap(a)


def sym_ints(name, shape, lo=None, hi=None):
    a = np.empty(shape, dtype=object)
    for idx in np.ndindex(*shape):
        a[idx] = sc.integer(_name(name, idx), lo, hi)
    return wrap(a)


def const_array(a):
    return wrap(obj(np.asarray(a)))


# --------------------------------------------------------------------------
# model evaluation (for replay)

def eval_scalar(x, model):
    """Sym scalar -> python value under a z3 model"""
    def ev(t):
        return model.eval(t, model_completion=True)
    if isinstance(x, SymBool):
        return bool(z3.is_true(ev(x.t)))
    if isinstance(x, SymInt):
        return ev(x.t).as_long()
    if isinstance(x, SymReal):
        if z3.is_true(ev(x.nan)):
            return float('nan')
        v = ev(x.v)
        if z3.is_algebraic_value(v):
            v = v.approx(30)
        fr = sc.fractions.Fraction(v.numerator_as_long(), v.denominator_as_long())
        if z3.is_true(ev(x.inf)):
            return -math.inf if fr < 0 else math.inf
        return float(fr)
    return x


def eval_array(a, model):
    if isinstance(a, Sym):
        return eval_scalar(a, model)
    a = np.asarray(a)
    if a.dtype != object:
        return a
    k = kind_of(a)
    out = np.empty(a.shape, dtype={'b': bool, 'i': np.int64, 'f': float}[k])
    for i in np.ndindex(*a.shape):
        out[i] = eval_scalar(a[i], model)
    return out


def same_arrays(a, b):
    """z3 term: arrays have equal shape and identical elements (NaN==NaN)"""
    a = np.asarray(_as_objarr(a))
    b = np.asarray(_as_objarr(b))
    if a.shape != b.shape:
        return FALSE
    terms = []
    for i in np.ndindex(*a.shape):
        terms.append(sc.same(a[i], b[i]))
    return And_(*terms)


# --------------------------------------------------------------------------
# Sym scalar (op) list/tuple/ndarray  ->  elementwise, like numpy scalars do

_SEQ_OPS = {
    '__add__': (np.add, False), '__radd__': (np.add, True),
    '__sub__': (np.subtract, False), '__rsub__': (np.subtract, True),
    '__mul__': (np.multiply, False), '__rmul__': (np.multiply, True),
    '__truediv__': (np.true_divide, False), '__rtruediv__': (np.true_divide, True),
    '__lt__': (np.less, False), '__le__': (np.less_equal, False), '__gt__': (np.greater, False),
    '__ge__': (np.greater_equal, False), '__eq__': (np.equal, False), '__ne__': (np.not_equal, False),
    '__and__': (np.bitwise_and, False), '__rand__': (np.bitwise_and, True),
    '__or__': (np.bitwise_or, False), '__ror__': (np.bitwise_or, True),
    '__xor__': (np.bitwise_xor, False), '__rxor__': (np.bitwise_xor, True),
}


def _install_seq_ops():
    for cls in (SymBool, SymInt, SymReal):
        for name, (uf, refl) in _SEQ_OPS.items():
            orig = cls.__dict__.get(name)
            if orig is None:
                continue

            def make(orig, uf, refl):
                def op(self, o):
                    if isinstance(o, tuple) and uf in (np.equal, np.not_equal):
                        return uf is np.not_equal          # like a Python number: never equal to a tuple
                    if isinstance(o, (list, tuple)) or (isinstance(o, np.ndarray) and o.ndim > 0):
                        arr = obj(o)
                        return array_ufunc(uf, '__call__', (arr, self) if refl else (self, arr), None, {})
                    return orig(self, o)
                op.__name__ = orig.__name__
                return op
            setattr(cls, name, make(orig, uf, refl))


_install_seq_ops()


# --------------------------------------------------------------------------
# numpy-scalar protocol for Sym scalars (what indexing a real array down to one element returns)

def _sym_as0d(self):
    o = np.empty((), dtype=object)
    o[()] = self
    return wrap(o)


def _sym_getitem(self, k):
    if k == () or k is Ellipsis:
        return self
    return _sym_as0d(self)[k]


Sym.shape = ()
Sym.ndim = 0
Sym.size = 1
Sym.T = property(lambda self: self)
Sym.__getitem__ = _sym_getitem
Sym.copy = lambda self: self
Sym.item = lambda self: self
Sym.astype = lambda self, dtype, *a, **kw: (self if _dtype_kind(dtype) is None else _to_kind(self, _dtype_kind(dtype)))
Sym.reshape = lambda self, *shape, **kw: _sym_as0d(self).reshape(*shape)
Sym.ravel = lambda self, *a, **kw: _sym_as0d(self).reshape(1)
Sym.flatten = lambda self, *a, **kw: _sym_as0d(self).reshape(1)
Sym.flat = property(lambda self: FlatView(_sym_as0d(self).reshape(1)))
Sym.any = lambda self, *a, **kw: sbool(self)
Sym.all = lambda self, *a, **kw: sbool(self)
Sym.squeeze = lambda self, *a, **kw: self
Sym.strides = ()


class _ScalarFlags:
    writeable = False
    c_contiguous = f_contiguous = owndata = True


Sym.flags = _ScalarFlags()


class ForkIndexArray(np.ndarray):
    """a *concrete* array (e.g. category labels) that may be indexed by symbolic masks / integers: the index is
    concretised by solver-controlled forks (plain ndarrays cannot be indexed by symbolic arrays at all)"""

    def __getitem__(self, k):
        return np.ndarray.__getitem__(self, _prep_index(k))
