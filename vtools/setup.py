"""./check setup: the overlay venv is built by the shell wrapper; here the shim and
stubs are validated against real numpy (differential test on concrete inputs)."""
import sys
import time


def main():
    t0 = time.time()
    import z3
    import numpy
    import glue
    print('z3', z3.get_version_string(), 'numpy', numpy.__version__, 'glue from', glue.__file__)
    from . import shimtest
    bad = shimtest.run(n=25)
    print('setup done in %.1fs, shim differential failures: %d' % (time.time() - t0, bad))
    return 0 if bad == 0 else 3
