"""CLI: python -m vtools.main CXX [--tier quick|thorough] [--replay file] | setup | selftest"""
import os
import sys
import json
import time
import argparse
import importlib

from . import runner
from .runner import VERIF, GLUE_SRC, EXIT_PASS, EXIT_VIOLATION, EXIT_INCONCLUSIVE


def load_known_findings(prop):
    path = os.path.join(VERIF, 'known_findings.jsonl')
    out = []
    if os.path.exists(path):
        for line in open(path):
            line = line.strip()
            if not line or line.startswith('#'):
                continue
            e = json.loads(line)
            if e.get('property') == prop:
                out.append(e)
    return out


def write_evidence(prop, tier, seed, level, coverage, assumptions, wall, violations, partial=False):
    d = os.path.join(VERIF, 'evidence')
    if partial:
        # a run restricted with --only describes part of the check: never the evidence of record
        d = os.path.join(VERIF, '.gen', 'evidence-partial')
    if os.path.realpath(GLUE_SRC) != os.path.realpath('/repo'):
        # runs against a patched scratch copy (selftest / tools_mutant.sh) must never overwrite the evidence of /repo
        d = os.path.join(VERIF, '.gen', 'evidence-scratch')
    os.makedirs(d, exist_ok=True)
    # keep a summary of the latest run of the *other* tier (the file itself always describes the run that wrote it)
    try:
        with open(os.path.join(d, prop + '.json')) as f:
            prev = json.load(f)
        if prev.get('tier') != tier:
            pc = prev.get('coverage', {})
            other = dict(tier=prev.get('tier'), wall_s=prev.get('wall_s'), violations=prev.get('violations'),
                         obligations=pc.get('obligations'), discharged=pc.get('discharged'), evaluations=pc.get('evaluations'),
                         harnesses=len(pc.get('harnesses', [])) if isinstance(pc.get('harnesses'), list) else pc.get('harnesses'),
                         solver_seconds=pc.get('solver_seconds'), paths=pc.get('paths'))
        else:
            other = prev.get('coverage', {}).get('other_tier_run')
        if other:
            coverage = dict(coverage, other_tier_run=other)
    except Exception:
        pass
    ev = dict(property_id=prop, tier=tier, seed=seed, level=level, coverage=coverage,
              assumptions=assumptions, wall_s=round(wall, 2), violations=violations)
    tmp = os.path.join(d, prop + '.json.tmp')
    with open(tmp, 'w') as f:
        json.dump(ev, f, indent=1, sort_keys=True, default=str)
    os.replace(tmp, os.path.join(d, prop + '.json'))


def check_property(prop, tier, seed, only=None, verbose=True):
    t0 = time.time()
    modname = 'props.' + prop.lower()
    mod = importlib.import_module(modname)
    level = getattr(mod, 'LEVEL', 'other')

    # --- known findings: re-run each stored demonstration on the current tree
    kf_lines = []
    active_kf = set()
    for e in load_known_findings(prop):
        if e.get('status') == 'fixed':
            continue
        demo = getattr(mod, 'KNOWN_DEMOS', {}).get(e['id'])
        still = None
        if demo is not None:
            try:
                still = bool(demo())
            except Exception as ex:  # a demo that cannot run is not a finding
                still = None
                print('note: known-finding demo %s could not run: %r' % (e['id'], ex))
        if still:
            active_kf.add(e['id'])
            kf_lines.append('KNOWN-FINDING: property=%s %s [%s]' % (prop, e['what'], e['id']))
    os.environ['VERIF_ACTIVE_KF'] = ','.join(sorted(active_kf))

    results = runner.run_harnesses(modname, tier, seed, only=only)

    # --- triage: replay every counterexample on the real code before reporting
    confirmed, unconfirmed, inconclusive = [], [], []
    for r in results:
        for v in r['violations']:
            path = runner.save_replay(prop, r['name'], tier, v)
            rep, out = runner.replay_in_subprocess(prop, path)
            if rep is True:
                confirmed.append((r['name'], v, path, out))
            else:
                unconfirmed.append((r['name'], v, path, out))
        for msg in r['inconclusive']:
            inconclusive.append((r['name'], msg))

    # --- evidence
    tot = dict(paths=0, forks=0, obligations=0, discharged=0, queries=0, solver_s=0.0, exec_s=0.0, aborted=0,
               states=0, transitions=0, traces=0, unknown=0)
    funcs, stubs, assumptions, samples, per_h = set(), set(), [], [], []
    for r in results:
        st = r.get('stats', {})
        for k in tot:
            tot[k] += st.get(k, 0)
        funcs.update(r.get('functions', []))
        stubs.update(r.get('stubs', []))
        for a in r.get('assumptions', []):
            if a not in assumptions:
                assumptions.append(a)
        samples += r.get('samples', [])[:2]
        per_h.append(dict(name=r['name'], kind=r.get('kind'), bounds=r.get('bounds'), wall_s=r.get('wall_s'),
                          paths=st.get('paths', 0), obligations=st.get('obligations', 0),
                          discharged=st.get('discharged', 0), queries=st.get('queries', 0),
                          solver_s=round(st.get('solver_s', 0.0), 3),
                          extra={k: v for k, v in st.items() if k not in tot and not isinstance(v, float)},
                          violations=len(r['violations']), inconclusive=r['inconclusive'][:3]))
    explanation = getattr(mod, 'EXPLANATION', 'bounded symbolic execution of the real code + SMT')
    coverage = dict(
        explanation=explanation,
        obligations=tot['obligations'], discharged=tot['discharged'],
        paths=tot['paths'], forks=tot['forks'], solver_queries=tot['queries'],
        solver_seconds=round(tot['solver_s'], 3), execution_seconds=round(tot['exec_s'], 3),
        unknown=tot['unknown'],
        evaluations=max(tot['paths'], 1) if tot['paths'] else max(tot['traces'], 0),
        distinct_nontrivial=tot['paths'] if tot['paths'] else tot['traces'],
        rule='one evaluation = one feasible control-flow path of the real code explored symbolically '
             '(distinct by its decision sequence), or one solver-enumerated (state, operation) case',
        functions_encoded=sorted(funcs), stubs_hit=sorted(stubs), harnesses=per_h,
        samples=samples[:12] or [{'note': 'no obligation sample recorded'}],
        glue_src=GLUE_SRC, known_findings_active=sorted(active_kf),
        exhaustive=False,
    )
    if level == 'model_checking':
        coverage['states'] = max(tot['states'], 0)
        coverage['transitions'] = max(tot['transitions'], 0)
        coverage['traces_validated_against_impl'] = tot['traces']
    trusted = ['z3 5.1.0', 'CPython 3.12', 'numpy (structural operations)', 'vtools.symnp shim', 'listed stubs']
    coverage['trusted_base'] = trusted
    assumptions = assumptions + ['floats modelled as extended reals (NaN/+-inf exact, rounding not modelled)']
    write_evidence(prop, tier, seed, level, coverage, assumptions, time.time() - t0, len(confirmed), partial=bool(only))

    # --- report
    for line in kf_lines:
        print(line)
    if verbose:
        for h in per_h:
            print('  %-38s paths=%-5d obl=%d/%d queries=%-5d solver=%.1fs wall=%ss %s' % (
                h['name'], h['paths'], h['discharged'], h['obligations'], h['queries'], h['solver_s'], h['wall_s'],
                ('INCONCLUSIVE ' + '; '.join(h['inconclusive'])[:160]) if h['inconclusive'] else ''))
    for name, v, path, out in confirmed:
        print('  counterexample in %s: %s' % (name, v.get('label')))
        print('  ' + out.strip().replace('\n', '\n  ')[-1200:])
        print('VIOLATION property=%s replay=%s' % (prop, path))
    if confirmed:
        return EXIT_VIOLATION
    if unconfirmed:
        for name, v, path, out in unconfirmed:
            print('HARNESS-ERROR: counterexample of %s (%s) does not reproduce on the real code: %s\n%s' % (
                name, v.get('label'), path, out.strip()[-800:]))
            if v.get('trace'):
                print(v['trace'][-1500:])
        return EXIT_INCONCLUSIVE
    if inconclusive:
        for name, msg in inconclusive[:6]:
            print('INCONCLUSIVE %s: %s' % (name, msg[:700]))
        for r in results:
            if r.get('trace'):
                print(r['trace'])
        return EXIT_INCONCLUSIVE
    print('PASS property=%s tier=%s obligations=%d discharged=%d paths=%d wall=%.1fs' % (
        prop, tier, tot['obligations'], tot['discharged'], tot['paths'], time.time() - t0))
    return EXIT_PASS


def main(argv=None):
    ap = argparse.ArgumentParser()
    ap.add_argument('target')
    ap.add_argument('rest', nargs='*')
    ap.add_argument('--tier', default=os.environ.get('VERIF_TIER', 'quick'))
    ap.add_argument('--replay')
    ap.add_argument('--quiet-replay', action='store_true')
    ap.add_argument('--only', action='append')
    a = ap.parse_args(argv)
    seed = int(os.environ.get('VERIF_SEED', '0') or 0)
    if a.target == 'setup':
        from . import setup as st
        return st.main()
    if a.target == 'selftest':
        from . import selftest
        return selftest.main(a.rest)
    prop = a.target.upper()
    if a.replay:
        rep, msg = runner.do_replay('props.' + prop.lower(), a.replay)
        print(msg)
        if rep is True:
            if not a.quiet_replay:
                print('VIOLATION property=%s replay=%s' % (prop, a.replay))
            return EXIT_VIOLATION
        if rep is False:
            return EXIT_PASS
        return EXIT_INCONCLUSIVE
    tier = a.tier if a.tier in ('quick', 'thorough') else 'quick'
    return check_property(prop, tier, seed, only=a.only)


if __name__ == '__main__':
    sys.exit(main())
