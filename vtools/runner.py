"""Harness definitions, parallel runner, replay, evidence."""
import os
import sys
import json
import time
import hashlib
import random
import traceback
import importlib
import subprocess
import multiprocessing

VERIF = os.path.dirname(os.path.dirname(os.path.abspath(__file__)))
GLUE_SRC = os.environ.get('GLUE_SRC', '/repo')

EXIT_PASS, EXIT_VIOLATION, EXIT_INCONCLUSIVE = 0, 1, 3


class Harness:
    """A symbolic harness (engine E2): ``body(env)`` runs real glue code.

    bounds       : dict, stated bounds of this harness (goes into evidence)
    fallbacks    : list of alternative ``params`` dicts tried (in order) when the
                   primary bound is inconclusive; the evidence records the bound
                   actually discharged
    validate     : number of random concrete runs of the same body against
                   unpatched real numpy/glue (oracle validation; a failure here is
                   reported like a solver counterexample after replay)
    """
    kind = 'sym'

    def __init__(self, name, body, bounds=None, max_paths=20000, wall_s=300, query_timeout_ms=30000,
                 validate=0, assumptions=(), params=None, max_depth=400, dyadic=True, weight=1):
        self.name = name
        self.body = body
        self.bounds = bounds or {}
        self.max_paths = max_paths
        self.wall_s = wall_s
        self.query_timeout_ms = query_timeout_ms
        self.validate = validate
        self.assumptions = list(assumptions)
        self.params = params or {}
        self.max_depth = max_depth
        self.dyadic = dyadic
        self.weight = weight

    def run(self, seed=0):
        from . import symcore as sc, symnp as sn
        from .env import SymEnv
        sn.patch_glue()
        clear_all_memo()
        funcs = set()
        first = [0]

        def fn(ctx):
            env = SymEnv(ctx)
            if first[0] < 25:
                first[0] += 1
                with FunctionTracer(funcs):
                    self.body(env, **self.params)
            else:
                self.body(env, **self.params)
            clear_all_memo()

        ex = sc.Explorer(fn, self.name, max_paths=self.max_paths, wall_s=self.wall_s,
                         query_timeout_ms=self.query_timeout_ms, max_depth=self.max_depth,
                         dyadic=self.dyadic)
        res = dict(name=self.name, kind='sym', bounds=self.bounds, assumptions=self.assumptions,
                   violations=[], inconclusive=[], samples=[], functions=[], stats={}, stubs=[])
        try:
            ex.run()
        except sc.EngineLimit as e:
            res['inconclusive'].append('EngineLimit: %s' % e)
            res['trace'] = traceback.format_exc()[-1500:]
        except sc.Inconclusive as e:
            res['inconclusive'].append('Inconclusive: %s' % e)
        res['inconclusive'] += ex.inconclusive
        for v in ex.violations:
            res['violations'].append(dict(label=v.label, witness=v.info, script=[str(s) for s in v.script],
                                          trace=getattr(v, 'trace', None)))
        res['stats'] = dict(ex.stats)
        res['samples'] = ex.samples[:3]
        res['functions'] = sorted(funcs)
        res['stubs'] = sorted(sn._STATE['stubs_hit'])
        if self.validate and not res['violations'] and not res['inconclusive']:
            ran, fails = validate_harness_concretely(self, self.validate, seed)
            res['stats']['concrete_validation_runs'] = ran
            res['violations'] += fails
        if ex.stats['paths'] == 0 or ex.stats['obligations'] == 0:
            if not res['violations'] and not res['inconclusive']:
                res['inconclusive'].append('vacuous: no path reached an obligation')
        return res


class FunctionTracer:
    """records which glue code objects execute (the measured 'functions encoded')"""

    def __init__(self, out):
        self.out = out
        self.prefix = os.path.join(os.path.realpath(GLUE_SRC), 'glue') + os.sep

    def __enter__(self):
        def prof(frame, event, arg):
            if event == 'call':
                co = frame.f_code
                fn = co.co_filename
                if fn.startswith(self.prefix) and '/tests/' not in fn:
                    q = getattr(co, 'co_qualname', co.co_name)
                    self.out.add('%s:%s' % (fn[len(self.prefix) - 5:], q))
        self._old = sys.getprofile()
        sys.setprofile(prof)
        return self

    def __exit__(self, *a):
        sys.setprofile(self._old)


def clear_all_memo():
    mod = sys.modules.get('glue.core.subset')
    if mod is None:
        return
    for cls in list(vars(mod).values()):
        if isinstance(cls, type):
            for v in vars(cls).values():
                c = getattr(v, '__memoize_cache', None)
                if isinstance(c, dict):
                    c.clear()


class FuncHarness:
    """A harness whose run() is a custom function returning the result dict
    (used for E1 CrossHair and E3 structgen checks)."""

    def __init__(self, name, fn, bounds=None, assumptions=(), kind='custom', weight=1):
        self.name = name
        self.fn = fn
        self.bounds = bounds or {}
        self.assumptions = list(assumptions)
        self.kind = kind
        self.weight = weight
        self.validate = 0

    def run(self, seed=0):
        res = dict(name=self.name, kind=self.kind, bounds=self.bounds, assumptions=self.assumptions,
                   violations=[], inconclusive=[], samples=[], functions=[], stats={}, stubs=[])
        funcs = set()
        try:
            self.fn(res, funcs)
        except Exception as e:
            res['inconclusive'].append('harness error %s: %s' % (type(e).__name__, e))
            res['trace'] = traceback.format_exc()[-2500:]
        res['functions'] = sorted(set(res['functions']) | funcs)
        return res


# --------------------------------------------------------------------------

def _worker(args):
    modname, hname, tier, seed = args
    t0 = time.time()
    try:
        mod = importlib.import_module(modname)
        hs = {h.name: h for h in mod.harnesses(tier)}
        h = hs[hname]
        res = h.run(seed)
    except BaseException as e:
        res = dict(name=hname, kind='?', bounds={}, assumptions=[], violations=[], samples=[], functions=[],
                   stats={}, stubs=[], inconclusive=['worker crashed %s: %s' % (type(e).__name__, e)],
                   trace=traceback.format_exc()[-2500:])
    res['wall_s'] = round(time.time() - t0, 3)
    return res


def run_harnesses(modname, tier, seed, only=None, procs=None):
    mod = importlib.import_module(modname)
    hs = mod.harnesses(tier)
    if only:
        hs = [h for h in hs if any(o in h.name for o in only)]
    hs = sorted(hs, key=lambda h: -h.weight)
    tasks = [(modname, h.name, tier, seed) for h in hs]
    procs = procs or int(os.environ.get('VERIF_PROCS', '0')) or min(16, max(1, len(tasks)))
    if procs == 1 or len(tasks) == 1:
        return [_worker(t) for t in tasks]
    ctx = multiprocessing.get_context('spawn')
    with ctx.Pool(procs, maxtasksperchild=8) as pool:
        return pool.map(_worker, tasks, chunksize=1)


# --------------------------------------------------------------------------
# replay (fresh interpreter, real numpy, unpatched glue)

def save_replay(prop, hname, tier, violation):
    d = os.path.join(VERIF, 'replays', prop)
    os.makedirs(d, exist_ok=True)
    blob = dict(property=prop, harness=hname, tier=tier, label=violation.get('label'),
                witness=violation.get('witness'), script=violation.get('script'),
                trace=violation.get('trace'))
    s = json.dumps(blob, sort_keys=True, indent=1, default=str)
    path = os.path.join(d, hashlib.sha1(s.encode()).hexdigest()[:12] + '.json')
    with open(path, 'w') as f:
        f.write(s)
    return path


def replay_in_subprocess(prop, path, timeout=600):
    """returns (reproduced: bool|None, output)"""
    env = dict(os.environ)
    env['PYTHONPATH'] = VERIF + os.pathsep + GLUE_SRC
    env['VERIF_REPLAY'] = '1'
    p = subprocess.run([sys.executable, '-W', 'ignore', '-m', 'vtools.main', prop, '--replay', path, '--quiet-replay'],
                       cwd=VERIF, env=env, capture_output=True, text=True, timeout=timeout)
    out = (p.stdout + p.stderr)[-3000:]
    if p.returncode == EXIT_VIOLATION:
        return True, out
    if p.returncode == EXIT_PASS:
        return False, out
    return None, out


def do_replay(modname, path):
    """Executed in the fresh interpreter: run the harness body concretely on the witness."""
    from .env import ConcreteEnv, CheckFailed, Skip
    blob = json.load(open(path))
    mod = importlib.import_module(modname)
    if hasattr(mod, 'replay'):
        r = mod.replay(blob)
        if r is not None:
            return r
    tier = blob.get('tier', 'quick')
    hs = {h.name: h for h in mod.harnesses(tier)}
    if blob['harness'] not in hs:
        for t in ('quick', 'thorough'):
            hs.update({h.name: h for h in mod.harnesses(t)})
    h = hs[blob['harness']]
    if not hasattr(h, 'body'):
        return None, 'harness %s has no concrete replay' % h.name
    wit = blob.get('witness') or {}
    if '_pc_model' in wit:
        wit = wit['_pc_model']
    env = ConcreteEnv(values=wit, rng=random.Random(0))
    try:
        h.body(env, **h.params)
    except CheckFailed as e:
        return True, 'check failed on real code: %s' % e
    except Skip:
        return False, 'assumption not met by the witness values'
    except Exception as e:
        return True, 'real code raised %s: %s\n%s' % (type(e).__name__, e, traceback.format_exc()[-1500:])
    return False, 'witness does not reproduce (%d checks passed)' % env.checks


def validate_harness_concretely(h, n, seed):
    """differential validation: the harness body on random concrete inputs, real numpy + unpatched glue
    semantics (the np proxy is transparent on concrete inputs)."""
    from .env import ConcreteEnv, CheckFailed, Skip
    rng = random.Random(seed * 7919 + 13)
    ran = 0
    fails = []
    for i in range(n):
        env = ConcreteEnv(rng=rng)
        try:
            h.body(env, **h.params)
            ran += 1
        except Skip:
            continue
        except CheckFailed as e:
            fails.append(dict(label='concrete: %s' % e, witness=dict(env.used), script=None))
            break
        except Exception as e:
            fails.append(dict(label='concrete: exception %s: %s' % (type(e).__name__, e), witness=dict(env.used),
                              script=None, trace=traceback.format_exc()[-1500:]))
            break
    return ran, fails
