"""symcore: symbolic scalars backed by z3 terms + a re-execution path explorer.

The *real* glue code is run on these values.  Control flow can depend on a
symbolic value only through ``SymBool.__bool__`` (fork under solver control)
or ``SymInt.__index__`` (solver-enumerated concretisation); everything else
builds terms.  At the end of a path the harness registers obligations
``PC => term`` which are discharged by z3 (``unsat`` of ``PC & ~term``).

Numeric model M-XR (DESIGN 3.1): a SymReal is an extended real
``(nan: Bool, inf: Bool, v: Real)``; if ``inf`` the value is +inf when
``v >= 0`` else -inf.  Comparisons follow IEEE-754 exactly on that domain,
arithmetic is exact real arithmetic with IEEE special-value propagation;
rounding is outside every claim.
"""
import math
import operator
import time
import fractions

import numpy as np
import z3


class EngineLimit(Exception):
    """The engine cannot model something: never a pass (exit 3)."""


class PathAbort(BaseException):
    """Current path is infeasible / assumed away."""


class Inconclusive(Exception):
    pass


# --------------------------------------------------------------------------
# term helpers with constant folding (keeps terms small: most flags are
# constant False)

TRUE = z3.BoolVal(True)
FALSE = z3.BoolVal(False)


def is_t(t):
    return z3.is_true(t)


def is_f(t):
    return z3.is_false(t)


def And_(*xs):
    out = []
    for x in xs:
        if is_f(x):
            return FALSE
        if is_t(x):
            continue
        out.append(x)
    if not out:
        return TRUE
    if len(out) == 1:
        return out[0]
    return z3.And(*out)


def Or_(*xs):
    out = []
    for x in xs:
        if is_t(x):
            return TRUE
        if is_f(x):
            continue
        out.append(x)
    if not out:
        return FALSE
    if len(out) == 1:
        return out[0]
    return z3.Or(*out)


def Not_(x):
    if is_t(x):
        return FALSE
    if is_f(x):
        return TRUE
    return z3.Not(x)


def If_(c, a, b):
    if is_t(c):
        return a
    if is_f(c):
        return b
    if a is b or a.eq(b):
        return a
    return z3.If(c, a, b)


def Xor_(a, b):
    if is_f(a):
        return b
    if is_f(b):
        return a
    if is_t(a):
        return Not_(b)
    if is_t(b):
        return Not_(a)
    return z3.Xor(a, b)


def rv(x):
    """python number -> exact z3 real"""
    if isinstance(x, (bool, np.bool_)):
        return z3.RealVal(int(x))
    if isinstance(x, (int, np.integer)):
        return z3.RealVal(int(x))
    if isinstance(x, fractions.Fraction):
        return z3.RealVal(str(x))
    f = float(x)
    fr = fractions.Fraction(f)
    return z3.RealVal(str(fr))


ZERO = z3.RealVal(0)
ONE = z3.RealVal(1)


# --------------------------------------------------------------------------
# explorer

class Ctx:
    """State of one path execution."""
    cur = None

    def __init__(self, ex, script):
        self.ex = ex
        self.script = list(script)
        self.pos = 0
        self.pc = []
        self.obligations = []
        self.notes = []
        self.witness_fn = None
        self.decided = {}
        self._keep = []   # keeps decided terms alive so that ast ids are not reused

    # -- decisions
    def _push(self, cond):
        self.pc.append(cond)
        self.ex.solver.add(cond)

    def feasible(self, cond):
        ex = self.ex
        s = ex.solver
        s.push()
        s.add(cond)
        t0 = time.time()
        r = s.check()
        ex.stats['solver_s'] += time.time() - t0
        ex.stats['feas_s'] = ex.stats.get('feas_s', 0.0) + time.time() - t0
        ex.stats['queries'] += 1
        s.pop()
        if r == z3.unknown:
            raise Inconclusive('feasibility query unknown: %s' % s.reason_unknown())
        return r == z3.sat

    def branch(self, cond):
        cond = z3.simplify(cond)
        if is_t(cond):
            return True
        if is_f(cond):
            return False
        key = cond.get_id()
        if key in self.decided:
            return self.decided[key]
        if self.pos < len(self.script):
            v = self.script[self.pos]
            self.pos += 1
            if not isinstance(v, bool):
                raise EngineLimit('non-deterministic replay (bool expected)')
            self._push(cond if v else z3.Not(cond))
            self.decided[key] = v
            self._keep.append(cond)
            return v
        ex = self.ex
        ex.stats['forks_seen'] += 1
        t = self.feasible(cond)
        if not t:
            v = False
        else:
            f = self.feasible(z3.Not(cond))
            if f:
                ex.todo.append(self.script + [False])
                ex.stats['forks'] += 1
            v = True
        self.script.append(v)
        self.pos += 1
        self._push(cond if v else z3.Not(cond))
        self.decided[key] = v
        self._keep.append(cond)
        if len(self.script) > ex.max_depth:
            raise EngineLimit('decision depth > %d' % ex.max_depth)
        return v

    def concretize(self, term, cap=64):
        """Solver-enumerated value of an Int term (fork per feasible value)."""
        term = z3.simplify(term)
        if z3.is_int_value(term):
            return term.as_long()
        if self.pos < len(self.script):
            v = self.script[self.pos]
            self.pos += 1
            if isinstance(v, bool) or not isinstance(v, int):
                raise EngineLimit('non-deterministic replay (int expected)')
            self._push(term == v)
            return v
        ex = self.ex
        s = ex.solver
        vals = []
        s.push()
        while True:
            t0 = time.time()
            r = s.check()
            ex.stats['solver_s'] += time.time() - t0
            ex.stats['queries'] += 1
            if r == z3.unknown:
                s.pop()
                raise Inconclusive('concretize unknown')
            if r == z3.unsat:
                break
            v = s.model().eval(term, model_completion=True).as_long()
            vals.append(v)
            s.add(term != v)
            if len(vals) > cap:
                s.pop()
                raise EngineLimit('concretize: more than %d values for %s' % (cap, term))
        s.pop()
        if not vals:
            raise PathAbort()
        vals.sort()
        for other in vals[1:]:
            ex.todo.append(self.script + [other])
            ex.stats['forks'] += 1
        v = vals[0]
        self.script.append(v)
        self.pos += 1
        self._push(term == v)
        return v

    def choose_fresh(self, name, n):
        """Enumerated choice in range(n) for a *fresh* variable: every value is feasible by
        construction, so the fork needs no query.  The decision is still recorded in the path
        condition (so counterexample models contain it)."""
        term = z3.Int(name)
        if self.pos < len(self.script):
            v = self.script[self.pos]
            self.pos += 1
            if isinstance(v, bool) or not isinstance(v, int):
                raise EngineLimit('non-deterministic replay (int expected)')
        else:
            ex = self.ex
            for other in range(n - 1, 0, -1):
                ex.todo.append(self.script + [other])
                ex.stats['forks'] += 1
            v = 0
            self.script.append(v)
            self.pos += 1
        self._push(term == v)
        return v

    def assume(self, cond):
        if isinstance(cond, SymBool):
            cond = cond.t
        elif isinstance(cond, (bool, np.bool_)):
            cond = z3.BoolVal(bool(cond))
        cond = z3.simplify(cond)
        if is_t(cond):
            return
        self._push(cond)
        if is_f(cond) or not self.feasible(TRUE):
            raise PathAbort()

    def constrain_fresh(self, cond):
        """add a constraint that is known to be satisfiable together with the path condition (range of a fresh
        variable): no feasibility query"""
        self._push(cond)

    def oblige(self, term, label, info=None):
        """register obligation PC => term"""
        if isinstance(term, SymBool):
            term = term.t
        elif isinstance(term, (bool, np.bool_)):
            term = z3.BoolVal(bool(term))
        self.obligations.append((term, label, info))

    def note(self, s):
        self.notes.append(s)


def cur():
    c = Ctx.cur
    if c is None:
        raise EngineLimit('symbolic value used outside an exploration')
    return c


class Violation:
    def __init__(self, label, model, info, script, pc):
        self.label = label
        self.model = model      # dict name -> python value
        self.info = info
        self.script = script
        self.pc = pc

    def __repr__(self):
        return 'Violation(%s, %s)' % (self.label, self.model)


def model_to_dict(m):
    out = {}
    for d in m.decls():
        v = m[d]
        name = d.name()
        try:
            if z3.is_bool(v):
                out[name] = bool(z3.is_true(v))
            elif z3.is_int_value(v):
                out[name] = v.as_long()
            elif z3.is_rational_value(v):
                out[name] = fractions.Fraction(v.numerator_as_long(), v.denominator_as_long())
            elif z3.is_algebraic_value(v):
                a = v.approx(20)
                out[name] = fractions.Fraction(a.numerator_as_long(), a.denominator_as_long())
            elif z3.is_bv_value(v):
                out[name] = v.as_long()
            else:
                out[name] = str(v)
        except Exception:
            out[name] = str(v)
    return out


class Explorer:
    """Depth-first re-execution explorer.

    ``fn(ctx)`` is the harness: it creates symbolic inputs (by *name*, so a
    re-execution sees the same variables), runs real code and registers
    obligations.  ``run`` returns a summary with counters and violations.
    """

    def __init__(self, fn, name='', max_paths=20000, max_depth=400, query_timeout_ms=30000,
                 wall_s=600, stop_on_violation=True, extra_assumptions=None, dyadic=True, max_violations=4,
                 expect_exceptions=()):
        self.fn = fn
        self.name = name
        self.max_paths = max_paths
        self.max_depth = max_depth
        self.query_timeout_ms = query_timeout_ms
        self.wall_s = wall_s
        self.stop_on_violation = stop_on_violation
        self.max_violations = max_violations
        self.dyadic = dyadic
        self.solver = z3.Solver()
        self.solver.set('timeout', query_timeout_ms)
        self.todo = [[]]
        self.stats = dict(paths=0, aborted=0, forks=0, forks_seen=0, queries=0, solver_s=0.0,
                          obligations=0, discharged=0, unknown=0, exec_s=0.0)
        self.violations = []
        self.samples = []
        self.state_set = set()
        self._nontrivial_samples = 0
        self.inconclusive = []
        self.expect_exceptions = expect_exceptions
        self.fresh_solver_for_obligations = True

    def run(self):
        t_start = time.time()
        while self.todo:
            if self.stats['paths'] >= self.max_paths:
                self.inconclusive.append('path cap %d reached' % self.max_paths)
                break
            if time.time() - t_start > self.wall_s:
                self.inconclusive.append('wall budget %ds reached' % self.wall_s)
                break
            script = self.todo.pop()
            ctx = Ctx(self, script)
            Ctx.cur = ctx
            self.solver.push()
            t0 = time.time()
            try:
                try:
                    self.fn(ctx)
                except PathAbort:
                    self.stats['aborted'] += 1
                    continue
                except Inconclusive as e:
                    self.inconclusive.append('path %r: %s' % (ctx.script, e))
                    continue
                except EngineLimit as e:
                    if len(self.inconclusive) < 5:
                        import traceback
                        self.inconclusive.append('EngineLimit on path %r: %s | %s' % (
                            ctx.script[:12], e, ' <- '.join(traceback.format_exc().strip().splitlines()[-7:-1:2])[-600:]))
                    self.stats['engine_limits'] = self.stats.get('engine_limits', 0) + 1
                    if self.stats['engine_limits'] > 20:
                        break
                    continue
                except Exception as e:
                    import traceback
                    tb = traceback.format_exc()[-2500:]
                    wit = None
                    try:
                        if self.solver.check() == z3.sat:
                            m = self.solver.model()
                            if self.dyadic:
                                m = self._dyadic_model(self.solver, m)
                            wit = ctx.witness_fn(m) if ctx.witness_fn else model_to_dict(m)
                    except Exception as e2:
                        wit = {'witness_error': repr(e2)}
                    v = Violation('exception %s: %s' % (type(e).__name__, e), {}, wit, list(ctx.script), None)
                    v.trace = tb
                    self.violations.append(v)
                    self.stats['paths'] += 1
                    if self._enough_violations():
                        break
                    continue
                finally:
                    self.stats['exec_s'] += time.time() - t0
                    Ctx.cur = None
                self.stats['paths'] += 1
                self._discharge(ctx)
                if self._enough_violations():
                    break
            finally:
                self.solver.pop()
        self.stats['wall_s'] = time.time() - t_start
        if self.state_set:
            self.stats['states'] = len(self.state_set)
        return self

    def _enough_violations(self):
        """stop after a few counterexamples with distinct labels (a non-reproducing one must not hide a real one)"""
        if not self.violations:
            return False
        if not self.stop_on_violation:
            return False
        kinds = set(v.label.split(':')[0][:80] for v in self.violations)
        return len(kinds) >= self.max_violations or len(self.violations) >= 4 * self.max_violations

    def _discharge(self, ctx):
        s = self.solver
        for term, label, info in ctx.obligations:
            self.stats['obligations'] += 1
            term_s = z3.simplify(term)
            if (not is_t(term_s) and self._nontrivial_samples < 4) or len(self.samples) < 2:
                self._nontrivial_samples += 0 if is_t(term_s) else 1
                self.samples.append({'harness': self.name, 'label': label,
                                     'path_decisions': [str(x) for x in ctx.script][:20],
                                     'obligation': _short(term_s)})
            if not is_t(term_s):
                self.stats['solver_obligations'] = self.stats.get('solver_obligations', 0) + 1
            if is_t(term_s):
                self.stats['discharged'] += 1
                continue
            if self.fresh_solver_for_obligations:
                # non-incremental solver: z3 can preprocess (solve-eqs, ...) which is much faster on
                # the arithmetic obligations than the incremental core
                s2 = z3.Solver()
                s2.set('timeout', self.query_timeout_ms)
                s2.add(*ctx.pc)
                s2.add(z3.Not(term_s))
                t0 = time.time()
                r = s2.check()
                self.stats['solver_s'] += time.time() - t0
                self.stats['queries'] += 1
                if r == z3.unsat:
                    self.stats['discharged'] += 1
                    continue
                if r == z3.unknown:
                    self.stats['unknown'] += 1
                    self.inconclusive.append('obligation %s: unknown (%s)' % (label, s2.reason_unknown()))
                    continue
            s.push()
            s.add(z3.Not(term_s))
            t0 = time.time()
            r = s.check()
            self.stats['solver_s'] += time.time() - t0
            self.stats['queries'] += 1
            if r == z3.unsat:
                self.stats['discharged'] += 1
            elif r == z3.sat:
                m = s.model()
                if self.dyadic:
                    m = self._dyadic_model(s, m)
                wit = None
                if callable(info):
                    try:
                        wit = info(m)
                    except Exception as e:  # witness extraction must never hide the violation
                        wit = {'witness_error': repr(e)}
                else:
                    wit = info
                self.violations.append(Violation(label, model_to_dict(m), wit, list(ctx.script), None))
                s.pop()
                return          # one counterexample per path is enough
            else:
                self.stats['unknown'] += 1
                self.inconclusive.append('obligation %s: unknown (%s)' % (label, s.reason_unknown()))
            s.pop()

    def _dyadic_model(self, s, m):
        """Try to find a model whose reals lie on a dyadic grid (exact as doubles)."""
        reals = [d() for d in m.decls() if d.arity() == 0 and z3.is_real(d())]
        if not reals:
            return m
        for den in (1, 2, 8, 64):
            s.push()
            s.set('timeout', 3000)
            for r in reals:
                k = z3.FreshInt('k')
                s.add(r * den == z3.ToReal(k), k >= -64 * den, k <= 64 * den)
            ok = s.check() == z3.sat
            if ok:
                m = s.model()
            s.set('timeout', self.query_timeout_ms)
            s.pop()
            if ok:
                return m
        return m

    @property
    def ok(self):
        return not self.violations and not self.inconclusive and \
            self.stats['discharged'] == self.stats['obligations']


def _short(t, n=300):
    s = str(t).replace('\n', ' ')
    s = ' '.join(s.split())
    return s if len(s) <= n else s[:n] + '...'


# --------------------------------------------------------------------------
# symbolic scalars

class Sym:
    __array_priority__ = 1000


def _is_npbool(x):
    return isinstance(x, (bool, np.bool_))


class SymBool(Sym):
    __slots__ = ('t',)

    def __init__(self, t):
        self.t = t

    def __bool__(self):
        return cur().branch(self.t)

    def _lift(self, o):
        if isinstance(o, SymBool):
            return o
        if _is_npbool(o):
            return SymBool(z3.BoolVal(bool(o)))
        if isinstance(o, (int, np.integer)) and int(o) in (0, 1):
            return SymBool(z3.BoolVal(bool(o)))
        return None

    def __and__(self, o):
        o = self._lift(o)
        if o is None:
            return NotImplemented
        return SymBool(And_(self.t, o.t))
    __rand__ = __and__

    def __or__(self, o):
        o = self._lift(o)
        if o is None:
            return NotImplemented
        return SymBool(Or_(self.t, o.t))
    __ror__ = __or__

    def __xor__(self, o):
        o = self._lift(o)
        if o is None:
            return NotImplemented
        return SymBool(Xor_(self.t, o.t))
    __rxor__ = __xor__

    def __invert__(self):
        return SymBool(Not_(self.t))

    def __eq__(self, o):
        o2 = self._lift(o)
        if o2 is None:
            return NotImplemented
        return SymBool(Not_(Xor_(self.t, o2.t)))

    def __ne__(self, o):
        o2 = self._lift(o)
        if o2 is None:
            return NotImplemented
        return SymBool(Xor_(self.t, o2.t))

    __hash__ = None

    # a bool used as a number
    def as_int(self):
        return SymInt(If_(self.t, z3.IntVal(1), z3.IntVal(0)))

    def __add__(self, o):
        return self.as_int() + o

    def __radd__(self, o):
        return o + self.as_int()

    def __mul__(self, o):
        return self.as_int() * o

    def __rmul__(self, o):
        return o * self.as_int()

    def __sub__(self, o):
        return self.as_int() - o

    def __rsub__(self, o):
        return o - self.as_int()

    def __int__(self):
        return 1 if bool(self) else 0
    __index__ = __int__

    def __float__(self):
        return float(int(self))

    def __repr__(self):
        return 'B(%s)' % _short(z3.simplify(self.t), 120)


def sbool(x):
    if isinstance(x, SymBool):
        return x
    if _is_npbool(x):
        return SymBool(z3.BoolVal(bool(x)))
    if isinstance(x, SymInt):
        return x != 0
    if isinstance(x, SymReal):
        return x != 0
    if isinstance(x, (int, float, np.integer, np.floating)):
        return SymBool(z3.BoolVal(bool(x)))
    raise EngineLimit('cannot lift %r to SymBool' % type(x))


class SymInt(Sym):
    __slots__ = ('t',)

    def __init__(self, t):
        if isinstance(t, (int, np.integer)):
            t = z3.IntVal(int(t))
        self.t = t

    @staticmethod
    def _lift(o):
        if isinstance(o, SymInt):
            return o
        if isinstance(o, SymBool):
            return o.as_int()
        if _is_npbool(o):
            return SymInt(int(o))
        if isinstance(o, (int, np.integer)):
            return SymInt(int(o))
        return None

    def _arith(self, o, f, rf=False):
        oi = self._lift(o)
        if oi is None:
            if isinstance(o, (float, np.floating, SymReal, fractions.Fraction)):
                a, b = self.as_real(), sreal(o)
                return f(b, a) if rf else f(a, b)
            return NotImplemented
        a, b = (oi, self) if rf else (self, oi)
        return SymInt(f(a.t, b.t))

    def __add__(self, o):
        return self._arith(o, operator.add)

    def __radd__(self, o):
        return self._arith(o, operator.add, True)

    def __sub__(self, o):
        return self._arith(o, operator.sub)

    def __rsub__(self, o):
        return self._arith(o, operator.sub, True)

    def __mul__(self, o):
        return self._arith(o, operator.mul)

    def __rmul__(self, o):
        return self._arith(o, operator.mul, True)

    def __neg__(self):
        return SymInt(-self.t)

    def __pos__(self):
        return self

    def __abs__(self):
        return SymInt(If_(self.t >= 0, self.t, -self.t))

    @staticmethod
    def _floordiv(a, b):
        # python floor division on ints; z3 div is Euclidean (remainder >= 0)
        q = a / b
        r = a % b
        # for b>0 euclidean == floor.  for b<0: floor = euclid if r==0 else euclid-1
        return If_(b > 0, q, If_(r == 0, q, q - 1))

    def __floordiv__(self, o):
        oi = self._lift(o)
        if oi is None:
            if isinstance(o, (float, np.floating, SymReal)):
                return (self.as_real() / sreal(o)).floor_real()
            return NotImplemented
        cur().assume(oi.t != 0)
        return SymInt(self._floordiv(self.t, oi.t))

    def __rfloordiv__(self, o):
        oi = self._lift(o)
        if oi is None:
            return NotImplemented
        return oi.__floordiv__(self)

    def __mod__(self, o):
        oi = self._lift(o)
        if oi is None:
            if isinstance(o, (float, np.floating, SymReal)):
                return self.as_real() % sreal(o)
            return NotImplemented
        cur().assume(oi.t != 0)
        return SymInt(self.t - oi.t * self._floordiv(self.t, oi.t))

    def __rmod__(self, o):
        oi = self._lift(o)
        if oi is None:
            return NotImplemented
        return oi.__mod__(self)

    def __divmod__(self, o):
        return self // o, self % o

    def __truediv__(self, o):
        return self.as_real() / sreal(o)

    def __rtruediv__(self, o):
        return sreal(o) / self.as_real()

    def __pow__(self, o):
        if isinstance(o, (int, np.integer)) and 0 <= int(o) <= 6:
            r = SymInt(1)
            for _ in range(int(o)):
                r = r * self
            return r
        return self.as_real() ** o

    def _cmp(self, o, f):
        oi = self._lift(o)
        if oi is None:
            if isinstance(o, (float, np.floating, SymReal, fractions.Fraction)):
                return f(self.as_real(), sreal(o))
            return NotImplemented
        return SymBool(f(self.t, oi.t))

    def __lt__(self, o):
        return self._cmp(o, operator.lt)

    def __le__(self, o):
        return self._cmp(o, operator.le)

    def __gt__(self, o):
        return self._cmp(o, operator.gt)

    def __ge__(self, o):
        return self._cmp(o, operator.ge)

    def __eq__(self, o):
        return self._cmp(o, operator.eq)

    def __ne__(self, o):
        return self._cmp(o, operator.ne)

    __hash__ = None

    def as_real(self):
        return SymReal(z3.ToReal(self.t))

    def __index__(self):
        return cur().concretize(self.t)
    __int__ = __index__

    def __float__(self):
        return float(self.__index__())

    def __bool__(self):
        return bool(self != 0)

    def __round__(self, n=None):
        return self

    def __floor__(self):
        return self

    def __ceil__(self):
        return self

    def __trunc__(self):
        return self

    def __repr__(self):
        return 'I(%s)' % _short(z3.simplify(self.t), 120)


class SymReal(Sym):
    """Extended real (nan, inf, v).  inf => value is +inf if v >= 0 else -inf."""
    __slots__ = ('v', 'nan', 'inf')

    def __init__(self, v, nan=FALSE, inf=FALSE):
        self.v = v
        self.nan = nan
        self.inf = inf

    # --- classification terms
    def t_isnan(self):
        return self.nan

    def t_isinf(self):
        return And_(Not_(self.nan), self.inf)

    def t_isfinite(self):
        return And_(Not_(self.nan), Not_(self.inf))

    def t_neg(self):
        """strictly negative (incl -inf), not nan"""
        return And_(Not_(self.nan), self.v < 0)

    def t_zero(self):
        return And_(self.t_isfinite(), self.v == 0)

    def _sign(self):
        return If_(self.v < 0, z3.RealVal(-1), ONE)

    # --- arithmetic
    def __neg__(self):
        return SymReal(-self.v if is_f(self.inf) else If_(self.inf, -self._sign(), -self.v), self.nan, self.inf)

    def __pos__(self):
        return self

    def __abs__(self):
        return SymReal(If_(self.v < 0, -self.v, self.v), self.nan, self.inf)

    def __add__(self, o):
        o = sreal_or_none(o)
        if o is None:
            return NotImplemented
        a, b = self, o
        if is_f(a.inf) and is_f(b.inf):
            return SymReal(a.v + b.v, Or_(a.nan, b.nan), FALSE)
        opp = And_(a.inf, b.inf, Xor_(a.v < 0, b.v < 0))
        nan = Or_(a.nan, b.nan, opp)
        inf = Or_(a.inf, b.inf)
        v = If_(a.inf, a._sign(), If_(b.inf, b._sign(), a.v + b.v))
        return SymReal(v, nan, inf)

    def __radd__(self, o):
        o = sreal_or_none(o)
        if o is None:
            return NotImplemented
        return o.__add__(self)

    def __sub__(self, o):
        o = sreal_or_none(o)
        if o is None:
            return NotImplemented
        return self.__add__(-o)

    def __rsub__(self, o):
        o = sreal_or_none(o)
        if o is None:
            return NotImplemented
        return o.__add__(-self)

    def __mul__(self, o):
        o = sreal_or_none(o)
        if o is None:
            return NotImplemented
        a, b = self, o
        if is_f(a.inf) and is_f(b.inf):
            return SymReal(a.v * b.v, Or_(a.nan, b.nan), FALSE)
        nan = Or_(a.nan, b.nan, And_(a.inf, Not_(b.inf), b.v == 0), And_(b.inf, Not_(a.inf), a.v == 0))
        inf = Or_(a.inf, b.inf)
        sgn = If_(Xor_(a.v < 0, b.v < 0), z3.RealVal(-1), ONE)
        v = If_(inf, sgn, a.v * b.v)
        return SymReal(v, nan, inf)

    def __rmul__(self, o):
        o = sreal_or_none(o)
        if o is None:
            return NotImplemented
        return o.__mul__(self)

    def __truediv__(self, o):
        o = sreal_or_none(o)
        if o is None:
            return NotImplemented
        a, b = self, o
        bz = And_(Not_(b.inf), b.v == 0)
        if is_f(a.inf) and is_f(b.inf) and is_f(z3.simplify(bz)):
            return SymReal(a.v / b.v, Or_(a.nan, b.nan), FALSE)
        # x/0: 0/0 = nan ; else inf with sign of x (divisor is +0: signed zero not modelled)
        nan = Or_(a.nan, b.nan, And_(a.inf, b.inf), And_(bz, Not_(a.inf), a.v == 0))
        inf = And_(Not_(nan), Or_(And_(a.inf, Not_(b.inf)), bz))
        sgn = If_(Xor_(a.v < 0, And_(Not_(bz), b.v < 0)), z3.RealVal(-1), ONE)
        safe_b = If_(bz, ONE, b.v)
        v = If_(inf, sgn, If_(b.inf, ZERO, a.v / safe_b))
        return SymReal(v, nan, inf)

    def __rtruediv__(self, o):
        o = sreal_or_none(o)
        if o is None:
            return NotImplemented
        return o.__truediv__(self)

    def __pow__(self, o):
        if isinstance(o, (int, np.integer)) or (isinstance(o, (float, np.floating)) and float(o).is_integer()):
            k = int(o)
            if 0 <= k <= 6:
                r = SymReal(ONE)
                for _ in range(k):
                    r = r * self
                return r
            if -3 <= k < 0:
                return SymReal(ONE) / (self ** (-k))
        if isinstance(o, (float, np.floating)) and float(o) == 0.5:
            return self.sqrt()
        if isinstance(o, SymInt):
            o2 = z3.simplify(o.t)
            if z3.is_int_value(o2):
                return self ** o2.as_long()
        raise EngineLimit('pow with exponent %r' % (o,))

    def sqrt(self):
        c = cur()
        r = z3.FreshReal('sqrt')
        neg = And_(Not_(self.nan), self.v < 0)
        c.assume(z3.Implies(And_(Not_(self.nan), Not_(self.inf), self.v >= 0), z3.And(r >= 0, r * r == self.v)))
        return SymReal(If_(self.inf, ONE, r), Or_(self.nan, neg), And_(self.inf, Not_(neg)))

    def log10(self):
        """S-log10: the double-precision log10 as an uninterpreted, *weakly* monotone function (two arguments closer than
        a relative 2^-20 may or may not be mapped to the same double), strictly increasing across arguments that are
        further apart (by >= 2^-22 beyond a relative 2^-20, by >= 0.09 beyond a factor 1.25), sign as for log10, magnitude
        within the double range [-324, 309]; 0 -> -inf, negative -> NaN, +inf -> +inf"""
        c = cur()
        r = z3.FreshReal('log10')
        sv = z3.simplify(self.v)
        if z3.is_rational_value(sv) and is_f(self.nan) and is_f(self.inf):
            # concrete argument: the double the C library returns (keeps the queries linear when range ends are concrete)
            f = float(sv.as_fraction())
            if f > 0:
                r = rv(math.log10(f))
        fin = And_(Not_(self.nan), Not_(self.inf))
        pos = And_(fin, self.v > 0)
        apps = c.__dict__.setdefault('_log10_apps', [])
        eps, step = z3.RealVal('1/1048576'), z3.RealVal('1/4194304')
        big, bigstep = z3.RealVal('5/4'), z3.RealVal('9/100')       # log10(1.25) = 0.0969...
        u53 = z3.RealVal('1/9007199254740992')                       # results are doubles: distinct ones are >= 2^-53 relative apart
        absz = lambda t: If_(t < 0, -t, t)
        dist = lambda p, q: If_(p < q, q - p, p - q)
        for (a, apos, ra) in apps:
            both = And_(pos, apos)
            c.assume(z3.Implies(both, z3.And(z3.Implies(a <= self.v, ra <= r), z3.Implies(self.v <= a, r <= ra),
                                             z3.Implies(self.v >= a * (1 + eps), r >= ra + step),
                                             z3.Implies(a >= self.v * (1 + eps), ra >= r + step),
                                             z3.Or(ra == r, z3.And(dist(ra, r) >= absz(r) * u53, dist(ra, r) >= absz(ra) * u53)),
                                             z3.Implies(self.v >= a * big, r >= ra + bigstep),
                                             z3.Implies(a >= self.v * big, ra >= r + bigstep))))
        c.assume(z3.Implies(pos, z3.And(z3.Implies(self.v >= 1, r >= 0), z3.Implies(self.v <= 1, r <= 0), r >= -324, r <= 309)))
        apps.append((self.v, pos, r))
        neg = And_(Not_(self.nan), self.v < 0)
        zero = And_(fin, self.v == 0)
        pinf = And_(Not_(self.nan), self.inf, Not_(self.v < 0))
        return SymReal(If_(zero, -ONE, If_(pinf, ONE, r)), Or_(self.nan, neg), Or_(zero, pinf))

    def floor_real(self):
        return SymReal(z3.ToReal(z3.ToInt(self.v)), self.nan, self.inf)

    def __floordiv__(self, o):
        o = sreal_or_none(o)
        if o is None:
            return NotImplemented
        return (self / o).floor_real()

    def __mod__(self, o):
        o = sreal_or_none(o)
        if o is None:
            return NotImplemented
        # python/numpy: a - floor(a/b)*b ; finite operands assumed
        q = (self / o).floor_real()
        return self - q * o

    def __rmod__(self, o):
        o = sreal_or_none(o)
        if o is None:
            return NotImplemented
        return o.__mod__(self)

    # --- comparisons (IEEE on extended reals)
    def _lt(a, b):
        base = a.v < b.v
        if is_f(a.inf) and is_f(b.inf):
            core = base
        else:
            a_ninf = And_(a.inf, a.v < 0)
            b_ninf = And_(b.inf, b.v < 0)
            a_pinf = And_(a.inf, Not_(a.v < 0))
            b_pinf = And_(b.inf, Not_(b.v < 0))
            core = If_(a.inf, And_(a_ninf, Not_(b_ninf)), If_(b.inf, b_pinf, base))
            del a_pinf
        return And_(Not_(a.nan), Not_(b.nan), core)

    def _eq(a, b):
        if is_f(a.inf) and is_f(b.inf):
            core = a.v == b.v
        else:
            core = If_(Or_(a.inf, b.inf), And_(a.inf, b.inf, Not_(Xor_(a.v < 0, b.v < 0))), a.v == b.v)
        return And_(Not_(a.nan), Not_(b.nan), core)

    def _cmp(self, o, kind):
        o = sreal_or_none(o)
        if o is None:
            return NotImplemented
        a, b = self, o
        if kind == 'lt':
            return SymBool(SymReal._lt(a, b))
        if kind == 'gt':
            return SymBool(SymReal._lt(b, a))
        if kind == 'le':
            return SymBool(Or_(SymReal._lt(a, b), SymReal._eq(a, b)))
        if kind == 'ge':
            return SymBool(Or_(SymReal._lt(b, a), SymReal._eq(a, b)))
        if kind == 'eq':
            return SymBool(SymReal._eq(a, b))
        if kind == 'ne':
            return SymBool(Not_(SymReal._eq(a, b)))

    def __lt__(self, o):
        return self._cmp(o, 'lt')

    def __le__(self, o):
        return self._cmp(o, 'le')

    def __gt__(self, o):
        return self._cmp(o, 'gt')

    def __ge__(self, o):
        return self._cmp(o, 'ge')

    def __eq__(self, o):
        return self._cmp(o, 'eq')

    def __ne__(self, o):
        return self._cmp(o, 'ne')

    __hash__ = None

    # --- conversions
    def __float__(self):
        c = z3.simplify(self.v)
        if is_t(z3.simplify(self.nan)):
            return float('nan')
        if z3.is_rational_value(c) and is_f(z3.simplify(self.nan)):
            if is_f(z3.simplify(self.inf)):
                return float(fractions.Fraction(c.numerator_as_long(), c.denominator_as_long()))
            if is_t(z3.simplify(self.inf)):
                return math.copysign(math.inf, -1 if c.numerator_as_long() < 0 else 1)
        raise EngineLimit('float() of a symbolic real')

    def __int__(self):
        try:
            return int(self.__float__())
        except EngineLimit:
            pass
        # int() truncates: the solver enumerates every feasible truncated value (needs a bounded value)
        c = cur()
        c.assume(self.t_isfinite())
        return c.concretize(self.to_int('trunc').t)

    def __index__(self):
        # numpy scalar types (np.intp(x)) accept integer-valued objects through __index__
        c = cur()
        c.assume(And_(self.t_isfinite(), self.v == z3.ToReal(z3.ToInt(self.v))))
        return c.concretize(z3.ToInt(self.v))

    def __bool__(self):
        return bool(self != 0)

    def to_int(self, mode):
        """SymInt by floor/ceil/trunc/rint (finite assumed)."""
        fl = z3.ToInt(self.v)
        if mode == 'floor':
            return SymInt(fl)
        if mode == 'ceil':
            return SymInt(-z3.ToInt(-self.v))
        if mode == 'trunc':
            return SymInt(If_(self.v >= 0, fl, -z3.ToInt(-self.v)))
        if mode == 'rint':  # round half to even
            fr = self.v - z3.ToReal(fl)
            half = z3.RealVal('1/2')
            up = fl + 1
            return SymInt(If_(fr < half, fl, If_(fr > half, up, If_(fl % 2 == 0, fl, up))))
        raise EngineLimit(mode)

    def __floor__(self):
        return self.to_int('floor')

    def __ceil__(self):
        return self.to_int('ceil')

    def __trunc__(self):
        return self.to_int('trunc')

    def __round__(self, n=None):
        if n is None:
            return self.to_int('rint')
        raise EngineLimit('round with digits')

    def __repr__(self):
        s = _short(z3.simplify(self.v), 120)
        extra = ''
        if not is_f(self.nan):
            extra += '|nan=%s' % _short(z3.simplify(self.nan), 40)
        if not is_f(self.inf):
            extra += '|inf=%s' % _short(z3.simplify(self.inf), 40)
        return 'R(%s%s)' % (s, extra)


def sreal_or_none(x):
    if isinstance(x, SymReal):
        return x
    if isinstance(x, SymInt):
        return x.as_real()
    if isinstance(x, SymBool):
        return x.as_int().as_real()
    if isinstance(x, (bool, np.bool_, int, np.integer)):
        return SymReal(rv(int(x)))
    if isinstance(x, (float, np.floating)):
        f = float(x)
        if math.isnan(f):
            return SymReal(ZERO, TRUE, FALSE)
        if math.isinf(f):
            return SymReal(ONE if f > 0 else z3.RealVal(-1), FALSE, TRUE)
        return SymReal(rv(f))
    if isinstance(x, fractions.Fraction):
        return SymReal(rv(x))
    if isinstance(x, np.ndarray) and x.ndim == 0 and x.dtype != object:
        return sreal_or_none(x[()])
    return None


def sreal(x):
    r = sreal_or_none(x)
    if r is None:
        raise EngineLimit('cannot lift %r to SymReal' % type(x))
    return r


def lift(x):
    """any scalar -> Sym scalar"""
    if isinstance(x, Sym):
        return x
    if _is_npbool(x):
        return SymBool(z3.BoolVal(bool(x)))
    if isinstance(x, (int, np.integer)):
        return SymInt(int(x))
    if isinstance(x, (float, np.floating, fractions.Fraction)):
        return sreal(x)
    raise EngineLimit('cannot lift %r' % type(x))


def ite(c, a, b):
    """symbolic select between two Sym scalars of compatible kind"""
    c = c.t if isinstance(c, SymBool) else (TRUE if c else FALSE)
    if is_t(c):
        return a
    if is_f(c):
        return b
    a, b = lift(a), lift(b)
    if isinstance(a, SymBool) and isinstance(b, SymBool):
        return SymBool(If_(c, a.t, b.t))
    if isinstance(a, SymInt) and isinstance(b, SymInt):
        return SymInt(If_(c, a.t, b.t))
    if isinstance(a, SymBool) or isinstance(b, SymBool):
        # mixing bool and number: numbers win
        a = a.as_int() if isinstance(a, SymBool) else a
        b = b.as_int() if isinstance(b, SymBool) else b
        return ite(SymBool(c), a, b)
    a, b = sreal(a), sreal(b)
    return SymReal(If_(c, a.v, b.v), If_(c, a.nan, b.nan), If_(c, a.inf, b.inf))


def same(a, b):
    """z3 term: the two Sym (or concrete) scalars denote the same value
    (NaN == NaN here: this is *identity of results*, not IEEE ==)."""
    if not isinstance(a, Sym) and not isinstance(b, Sym):
        if isinstance(a, (float, np.floating)) and isinstance(b, (float, np.floating)) and math.isnan(a) and math.isnan(b):
            return TRUE
        return z3.BoolVal(bool(a == b))
    a, b = lift(a), lift(b)
    if isinstance(a, SymBool) and isinstance(b, SymBool):
        return Not_(Xor_(a.t, b.t))
    if isinstance(a, SymInt) and isinstance(b, SymInt):
        return a.t == b.t
    if isinstance(a, SymBool):
        a = a.as_int()
    if isinstance(b, SymBool):
        b = b.as_int()
    a, b = sreal(a), sreal(b)
    both_nan = And_(a.nan, b.nan)
    return Or_(both_nan, And_(Not_(a.nan), Not_(b.nan), SymReal._eq(SymReal(a.v, FALSE, a.inf), SymReal(b.v, FALSE, b.inf))))


# -- variable constructors (deterministic names => same variables on re-execution)

def real(name, nan=False, inf=False):
    return SymReal(z3.Real(name), z3.Bool(name + '!nan') if nan else FALSE,
                   z3.Bool(name + '!inf') if inf else FALSE)


def integer(name, lo=None, hi=None):
    t = z3.Int(name)
    c = cur()
    if lo is not None and hi is not None and lo > hi:
        raise PathAbort()
    if lo is not None:
        c.constrain_fresh(t >= lo)
    if hi is not None:
        c.constrain_fresh(t <= hi)
    return SymInt(t)


def boolean(name):
    return SymBool(z3.Bool(name))


def concrete_value(x, model):
    """Evaluate a Sym scalar under a model dict -> python value (float/int/bool)."""
    raise NotImplementedError


def log10_anchor(f):
    """registers the concrete application log10(f) (f a positive finite float) with the S-log10 model of the current path,
    so that symbolic applications are ordered relative to it"""
    c = Ctx.cur
    if c is None:
        return
    f = float(f)
    if not (f > 0) or math.isinf(f):
        return
    apps = c.__dict__.setdefault('_log10_apps', [])
    for (a, apos, ra) in apps:
        if z3.is_rational_value(a) and float(a.as_fraction()) == f:
            return
    SymReal(rv(f)).log10()
