"""Primitive differential test of the symnp shim: every overridden numpy entry point is run on random
concrete inputs lifted to constant Sym arrays and must evaluate to exactly what real numpy returns."""
import random
import warnings

import numpy as np
import z3

from . import symcore as sc, symnp as sn


def _ev(x):
    m = z3.Solver()
    m.check()
    mod = m.model()
    return sn.eval_array(x, mod) if not isinstance(x, (bool, int, float, np.generic)) else x


def _rand_arr(rng, shape, special=True):
    a = np.array([rng.randint(-16, 16) / 4.0 for _ in range(int(np.prod(shape)))]).reshape(shape)
    if special and a.size:
        for _ in range(rng.randint(0, 2)):
            a.flat[rng.randrange(a.size)] = rng.choice([np.nan, np.inf, -np.inf])
    return a


def _same(a, b):
    a, b = np.asarray(a), np.asarray(b)
    if a.shape != b.shape:
        return False
    if a.dtype.kind in 'fc' or b.dtype.kind in 'fc':
        return np.array_equal(a.astype(float), b.astype(float), equal_nan=True)
    return np.array_equal(a, b)


def run(n=60, seed=1, verbose=False):
    rng = random.Random(seed)
    bad = 0
    warnings.simplefilter('ignore')
    np.seterr(all='ignore')

    def fn(ctx):
        nonlocal bad
        for it in range(n):
            shape = rng.choice([(3,), (2, 3), (2, 2, 2), (1, 4)])
            a = _rand_arr(rng, shape)
            b = _rand_arr(rng, shape)
            sa, sb = sn.const_array(a), sn.const_array(b)
            cases = []
            for uf in (np.add, np.subtract, np.multiply, np.true_divide, np.greater, np.greater_equal, np.less,
                       np.less_equal, np.equal, np.not_equal, np.minimum, np.maximum):
                cases.append((uf.__name__, lambda uf=uf: uf(sa, sb), lambda uf=uf: uf(a, b)))
            for uf in (np.negative, np.absolute, np.isnan, np.isfinite, np.isinf, np.floor, np.ceil, np.rint, np.sign):
                cases.append((uf.__name__, lambda uf=uf: uf(sa), lambda uf=uf: uf(a)))
            ma, mb = a > 0, b > 0
            sma, smb = sn.const_array(ma), sn.const_array(mb)
            for uf in (np.logical_and, np.logical_or, np.logical_xor, np.bitwise_and, np.bitwise_or, np.bitwise_xor):
                cases.append((uf.__name__, lambda uf=uf: uf(sma, smb), lambda uf=uf: uf(ma, mb)))
            cases.append(('invert', lambda: ~sma, lambda: ~ma))
            for ax in [None, 0, -1] + ([(0, 1)] if len(shape) > 1 else []):
                for f in (np.nanmin, np.nanmax, np.nansum, np.nanmean, np.min, np.max, np.sum, np.mean, np.median,
                          np.nanmedian):
                    cases.append(('%s axis=%s' % (f.__name__, ax), lambda f=f, ax=ax: f(sa, axis=ax),
                                  lambda f=f, ax=ax: f(a, axis=ax)))
                for q in (0, 25, 50, 100):
                    cases.append(('percentile %s axis=%s' % (q, ax), lambda q=q, ax=ax: np.percentile(sa, q, axis=ax),
                                  lambda q=q, ax=ax: np.percentile(a, q, axis=ax)))
                    cases.append(('nanpercentile %s axis=%s' % (q, ax), lambda q=q, ax=ax: np.nanpercentile(sa, q, axis=ax),
                                  lambda q=q, ax=ax: np.nanpercentile(a, q, axis=ax)))
                cases.append(('any axis=%s' % (ax,), lambda ax=ax: np.any(sma, axis=ax), lambda ax=ax: np.any(ma, axis=ax)))
                cases.append(('all axis=%s' % (ax,), lambda ax=ax: np.all(sma, axis=ax), lambda ax=ax: np.all(ma, axis=ax)))
            cases.append(('where3', lambda: np.where(sma, sa, sb), lambda: np.where(ma, a, b)))
            cases.append(('isin', lambda: np.isin(sa, [0.5, 1.0, -2.0]), lambda: np.isin(a, [0.5, 1.0, -2.0])))
            cases.append(('isclose', lambda: np.isclose(sa, sb), lambda: np.isclose(a, b)))
            cases.append(('astype bool', lambda: sa.astype(bool), lambda: np.where(np.isnan(a), True, a != 0)))
            cases.append(('hstack', lambda: np.hstack([sa.ravel(), sb.ravel()]), lambda: np.hstack([a.ravel(), b.ravel()])))
            cases.append(('broadcast_to', lambda: np.broadcast_to(sa[..., :1], shape), lambda: np.broadcast_to(a[..., :1], shape)))
            cases.append(('setitem mask', lambda: _setmask(sa, sma), lambda: _setmask(a, ma)))
            cases.append(('sort', lambda: np.sort(sa.ravel()), lambda: np.sort(a.ravel())))
            cases.append(('linspace', lambda: np.linspace(sc.sreal(1.5), sc.sreal(4.0), 5), lambda: np.linspace(1.5, 4.0, 5)))
            fa = np.where(np.isfinite(a), a, 1.0)
            fb = np.where(np.isfinite(b), b, 1.0)
            if len(shape) == 2:
                cases.append(('matmul', lambda: np.matmul(sn.const_array(fa), sn.const_array(fb.T)),
                              lambda: np.matmul(fa, fb.T)))
            cases.append(('searchsorted', lambda: np.searchsorted(sn.const_array(np.sort(fa.ravel())), sn.const_array(fb.ravel())),
                          lambda: np.searchsorted(np.sort(fa.ravel()), fb.ravel())))
            for name, fs, fr in cases:
                try:
                    want = fr()
                except Exception as e:
                    continue
                try:
                    got = _ev(fs())
                except sc.EngineLimit as e:
                    continue
                if not _same(got, want):
                    bad += 1
                    if bad < 10 or verbose:
                        print('SHIM MISMATCH', name, 'a=', a.tolist(), 'b=', b.tolist(), 'got', np.asarray(got).tolist(),
                              'want', np.asarray(want).tolist())
        ctx.oblige(sc.TRUE, 'done')

    sc.Explorer(fn, 'shimtest').run()
    return bad


def _setmask(x, m):
    y = x.copy()
    y[m] = 7.0
    return y
