#!/bin/bash
# runs every claimed check (quick tier by default) against /repo and prints a one-line summary per property
TIER="${1:-quick}"
cd "$(dirname "$0")"
for id in $(python3 -c "import json; print(' '.join(c['property_id'] for c in json.load(open('MANIFEST.json'))['checks']))"); do
  s=$(date +%s)
  out=$(./check $id --tier $TIER 2>&1); rc=$?
  e=$(date +%s)
  echo "$id rc=$rc $((e-s))s $(echo "$out" | grep -E '^(PASS|VIOLATION|INCONCLUSIVE|HARNESS-ERROR|KNOWN-FINDING)' | head -3 | cut -c1-160 | tr '\n' '|')"
done
