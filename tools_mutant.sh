#!/bin/bash
# usage: tools_mutant.sh <patch.diff> <CXX> [extra check args]
# Applies the patch to a scratch worktree of /repo (outside /repo and /verif), runs the check against it
# via GLUE_SRC, prints the exit code and removes the worktree.
set -u
PATCH="$(realpath "$1")"; PROP="$2"; shift 2
WT=$(mktemp -d /var/tmp/verif-mut-XXXXXX)
rmdir "$WT"
git -C /repo worktree add -f "$WT" HEAD -q || exit 3
# carry over uncommitted tracked changes of /repo (e.g. a fix being developed)
git -C /repo diff HEAD | git -C "$WT" apply --allow-empty 2>/dev/null
if ! git -C "$WT" apply "$PATCH" 2>/dev/null; then
    if ! git -C "$WT" apply -3 "$PATCH"; then echo "PATCH DOES NOT APPLY"; git -C /repo worktree remove --force "$WT"; exit 4; fi
fi
GLUE_SRC="$WT" /verif/check "$PROP" "$@"
RC=$?
echo "mutant exit code: $RC"
git -C /repo worktree remove --force "$WT"
exit $RC
