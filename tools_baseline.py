#!/usr/bin/env python3
"""Run glue's pinned suite (guard off) and compare with BASELINE.json's stable_pass list."""
import json, subprocess, sys, os, xml.etree.ElementTree as ET
out = sys.argv[1] if len(sys.argv) > 1 else '/var/tmp/verif-baseline.xml'
repo = sys.argv[2] if len(sys.argv) > 2 else '/repo'
env = dict(os.environ); env.pop('GLUE_VIZ_GLUE_VERIF', None)
subprocess.run(['/venv/bin/python', '-m', 'pytest', '-ra', '-q', '-p', 'no:cacheprovider', '--timeout=900',
                '--continue-on-collection-errors', '-x' if False else '-q', '--junitxml=' + out], cwd=repo, env=env,
               stdout=subprocess.DEVNULL, stderr=subprocess.DEVNULL)
b = json.load(open('/root/.vp/BASELINE.json'))
passed = set()
for tc in ET.parse(out).getroot().iter('testcase'):
    if not list(tc):
        passed.add('%s::%s' % (tc.get('classname'), tc.get('name')))
    elif all(c.tag in ('system-out', 'system-err', 'properties') for c in tc):
        passed.add('%s::%s' % (tc.get('classname'), tc.get('name')))
missing = [t for t in b['stable_pass'] if t not in passed]
print('stable_pass: %d, passed now: %d, missing: %d' % (len(b['stable_pass']), len(passed), len(missing)))
for t in missing[:40]:
    print('  NOT PASSING:', t)
sys.exit(1 if missing else 0)
