#!/bin/bash
# usage: tools_seed_confirm.sh <CXX> <A|B> "<needs-to-manifest text>"   (inputs under /tmp/seed_out/<CXX>/)
# Confirms a sub-agent's seeded change in a fresh scratch worktree and stores it under /verif/seeded/.
set -u
ID="$1"; X="$2"; NEEDS="${3:-see notes.md}"
SRCROOT="${4:-/tmp/seed_out}"; NAME="${6:-$X}"
SRC=$SRCROOT/$ID
WT=$(mktemp -d /var/tmp/verif-seed-XXXXXX); rmdir "$WT"
BASE="${5:-$(cat /root/.vp/repo_root_sha 2>/dev/null || git -C /repo rev-list --max-parents=0 HEAD)}"
git -C /repo worktree add -f "$WT" "$BASE" -q || exit 3
run_demo() { (cd "$WT" && PYTHONPATH="$WT" timeout 600 /venv/bin/python "$SRC/${X}_demo.py" >/dev/null 2>&1; echo $?); }
R0=$(run_demo)
git -C "$WT" apply "$SRC/${X}_patch.diff" || { echo "patch does not apply"; git -C /repo worktree remove --force "$WT"; exit 4; }
R1=$(run_demo)
(cd "$WT" && /venv/bin/python -m pytest -q -p no:cacheprovider --timeout=900 -x glue/core glue/utils \
   --deselect glue/core/data_factories/tests/test_data_factories.py::test_csv_pandas_factory \
   --deselect glue/core/data_factories/tests/test_excel.py::test_excel_single \
   --ignore glue/core/data_factories/tests/test_pandas.py --ignore glue/core/tests/test_pandas.py 2>&1 | tail -1) > /var/tmp/seedtest.$$ 
T=$(cat /var/tmp/seedtest.$$); rm -f /var/tmp/seedtest.$$
echo "$ID-$X: demo clean=$R0 patched=$R1 tests: $T"
git -C /repo worktree remove --force "$WT"
if [ "$R0" = "0" ] && [ "$R1" != "0" ] && echo "$T" | grep -q " passed" && ! echo "$T" | grep -qE "[0-9]+ (failed|error)"; then
  D=/verif/seeded/$ID-$NAME; mkdir -p "$D"
  cp "$SRC/${X}_patch.diff" "$D/patch.diff"; cp "$SRC/${X}_demo.py" "$D/demo.py"; cp "$SRC/${X}_notes.md" "$D/notes.md" 2>/dev/null
  /venv/bin/python - "$ID" "$X" "$NEEDS" "$T" "$D" <<'PY'
import json, sys
i, x, needs, t, d = sys.argv[1:]
json.dump(dict(property=i, variant=x, breaks=i, needs_to_manifest=needs,
               confirmed=dict(base='scratch worktree at the commit the sub-agent worked on', demo_exit_clean=0, demo_exit_patched='non-zero',
                              tests_run='pytest glue/core glue/utils (tests failing on the unchanged tree offline excluded); '
                                        'sub-agent additionally ran the full suite', tests_result=t),
               source='independent sub-agent given only the property text'), open(d + '/meta.json', 'w'), indent=1)
PY
  echo "stored $D"
else
  echo "NOT CONFIRMED"
fi
