#!/usr/bin/env python3
"""Regenerates MANIFEST.json from the table below (keeps it valid and current)."""
import json
import os

HERE = os.path.dirname(os.path.abspath(__file__))

SYM = ('bounded symbolic execution of the real glue code on numpy arrays whose elements are z3 terms '
       '(path forks decided by the solver), obligations discharged by z3 (unsat), counterexamples '
       'replayed on the real code')
NOTE_SYM = ('bounds in evidence (array shapes, tree depth, integer ranges); floats are extended reals '
            '(NaN/inf exact, rounding not modelled); trusted: z3, CPython, real numpy for structural ops, '
            'the vtools.symnp shim (differentially validated at setup), listed stubs for compiled callees')

CHECKS = {
    'C01': dict(cat='other', technique='symbolic execution of real code (numpy shim over z3 terms) + SMT equivalence',
                text='Every expression tree (and/or/xor/not/multi-or, edit modes) up to the stated depth over all '
                     'elementary selection kinds is executed symbolically through the real SubsetState classes on '
                     'arrays whose elements, thresholds and masks are solver variables; z3 proves the mask equal to the '
                     'Boolean tree of the leaf definitions for every value (incl. NaN/inf), operands unaltered, '
                     'evaluation order irrelevant. Bounded: shapes and depth as in evidence.', ref='5/C01'),
}

CHECKS['C07'] = dict(cat='model_checking', struct=True, engine='symnp (explorer) on the real Hub',
    technique='bounded model checking: solver-enumerated operation traces with symbolic priorities/filters on the real Hub vs reference model',
    text='All operation sequences up to the depth bound over broadcast/delay/ignore/subscribe/unsubscribe with re-entrant handler '
         'behaviours are generated under solver control (opcodes, subscription flags, filter verdicts and pairwise-distinct '
         'priorities are solver variables; the real sorted()/filter code forks on them), executed on the real Hub and compared '
         'step by step with a reference model holding an explicit nesting depth and queue. States = model states reached, '
         'transitions = executed operations, every trace is a real execution.', ref='5/C07',
    note='bounded depth (evidence.bounds); message classes A, B<A, C; 3 listeners; tie order among equal priorities is not '
         'constrained (priorities assumed distinct); delivery-time subscription semantics as documented in Hub')
CHECKS['C20'] = dict(cat='other', xhair=True, engine='symnp + crosshair',
    technique='symbolic execution (own executor with symbolic integers; CrossHair for find_chunk_shape) + SMT',
    text='combine_slices is executed with symbolic start/stop/length/position (steps enumerated) and z3 proves that a view '
         'position is selected by the combined slice iff its element is selected by the second slice; find_chunk_shape is '
         'checked by CrossHair (Confirmed over all paths required); iterate_chunks runs with a symbolic chunk limit over '
         'solver-enumerated shapes; unbroadcast/broadcast_arrays_minimal/view_shape/categorical arrays over all stride '
         'patterns / views / letter assignments inside the bounds.', ref='5/C20')

CHECKS['C12'] = dict(cat='other', engine='symnp + z3 table encoding',
    technique='symbolic execution of VersionedDict (solver-enumerated versions) + SMT encoding of the redirect table (bounded unrolling)',
    text='VersionedDict: the real class is executed on every sequence of writes whose versions are solver variables (each feasible '
         'value enumerated by all-SAT where the code calls int()), asserting consecutive-from-1, no overwrite, newest wins. '
         'Redirect table: read from the current source and encoded in z3; termination of the real lookup loop is the '
         'unsatisfiability of "still a key after len(table)+1 steps"; importability of in-package targets, capture of live '
         'glue.core classes and registry consistency (consecutive versions, loader for every saver version) are finite scans '
         'of the current tables (auxiliary, concrete). Every registered protocol version of Data (1-5) and DataCollection (1-4) is written with that '
         'version\'s saver and re-loaded with the current loaders over a symbolic payload (links, two-dataset links, key joins, '
         'groups, styles as far as the version can represent them) and compared by the C02 obligations.', ref='5/C12',
    note='versions bounded to [-2, V], 2 keys, K writes; capture check judged for glue.core.* keys only (viewer/dialog classes '
         'redirected to glue_qt are reported in evidence, not judged)')

CHECKS['C08'] = dict(cat='other', engine='symnp',
    technique='symbolic execution of the real ROI classes on symbolic points/parameters + SMT (linear and nonlinear real arithmetic)',
    text='Rectangle (all listed angles incl. multiples and near-multiples of pi/2, symbolic bounds), ellipse (listed radii, '
         'symbolic centre; ten listed radii pairs in the thorough tier), circle, annulus, x/y ranges, polygons (triangle, square, closed, '
         'concave, collinear vertex; symbolic translation) and projected 3-d regions: points are parametrised in the region frame '
         'and mapped forward, z3 proves inside => contained and outside => not contained outside a relative boundary band, '
         'for every array layout (1-d, row, column, 0-stride grid), after move_to / rotate_to / copy / save-restore, and that '
         'to_polygon vertices lie on the true boundary.', ref='5/C08',
    note=NOTE_SYM + '; angles are a listed set (cos/sin rounded to 24-bit dyadic rationals inside the solver, covered by the band); '
         'S-path: matplotlib Path.contains_points modelled by a crossing-number test (real routine on replay); chunk limit '
         'clamped to 2 for the projected ROI')

CHECKS['C04'] = dict(cat='other', engine='symnp',
    technique='symbolic execution of the real view plumbing on arrays of SMT terms + SMT equivalence, views enumerated by the solver',
    text='For every attribute kind (stored, derived, pixel, world, categorical, linked, derived-of-pixel) and every selection kind '
         '(inequalities, range, ROI on stored/pixel/world attributes incl. the pixel-space shortcut, slice, mask on same and foreign '
         'grid, element, category, categorical ROI, and/multi-or/invert) and every view of the family (None, Ellipsis, all tuples of '
         'listed ints/positive-step slices incl. negative, overshooting and empty ones, shorter tuples, integer index arrays, '
         'boolean mask) the restricted result is proved equal, element by element over symbolic contents, to the full result '
         'indexed by the view; IndexedData values/masks equal the parent slice, also after indices are reassigned.', ref='5/C04',
    note=NOTE_SYM + '; affine coordinates with listed matrices (symbolic matrices are C15); categorical values are concrete strings')

CHECKS['C10'] = dict(cat='other', engine='symnp',
    technique='symbolic execution of the real statistic/histogram code on symbolic values, masks and ranges + SMT equivalence with the textbook definition',
    text='Data.compute_statistic (all six statistics, every axis subset, views with positive steps / negative starts / integers, '
         'no / opaque-mask / range / slice / pixel / empty selections, finite and positive filters, chunk limits that force the '
         'chunked path) and compute_histogram (1-d and 2-d, weights, reversed ranges, selections) are executed on arrays whose '
         'values (NaN/inf included), masks and range ends are solver variables; the mask bounding-box logic forks under solver '
         'control; z3 proves every result element equal to the NaN-aware definition over the full array and the bin totals '
         'equal to the in-range count; log-space 1-d histograms over four concrete ranges with log10 as a weakly monotone '
         'double-valued uninterpreted function (S-log10).', ref='5/C10',
    note=NOTE_SYM + '; S-hist: fast_histogram kernels replaced by floor((x-lo)/(hi-lo)*n) with a double-precision guard at the '
         'upper edge (values closer than a quarter ulp to it are the edge); S-nextafter/S-spacing: one ulp is a fresh value in '
         '[|x|2^-53, |x|2^-52]; values within 1e-9 of the width of an interior bin edge (but not on it) are outside the claim; '
         'log-space histograms: concrete range ends, 1-d only; random_subset is outside the claim')

CHECKS['C14'] = dict(cat='other', engine='symnp',
    technique='symbolic execution of the real link machinery on arrays of SMT terms + SMT equivalence; dependency DAGs enumerated by the solver',
    text='Depth-2 expression trees over + - * / **2 with stored, pixel (0-stride), world (affine), derived and symbolic-constant '
         'leaves, built with the real ComponentID/ComponentLink operators; user-function links (incl. ravelled results, fully '
         'broadcast inputs, user link as left operand) and parsed text commands (incl. nested parsed attributes) are evaluated '
         'on the whole dataset and for a view family and proved equal to the expression applied elementwise. Removal/update_id: '
         'every dependency DAG of 3 (thorough: 4) derived attributes over 2 stored ones, with and without a shared sub-expression '
         'object, stored in creation order / with the derived attributes reordered / with one redefined in place, every victim: survivors = non-dependants in the old order with unchanged values, every removal announced once.',
    ref='5/C14', note=NOTE_SYM + '; divisors assumed non-zero (sign of zero not modelled); numpy functions inside parsed commands outside the claim')

CHECKS['C15'] = dict(cat='other', engine='symnp',
    technique='symbolic execution of the coordinate code with a symbolic affine matrix (zero pattern forked by the solver) + SMT equivalence',
    text='Forward direction: the linear block and translation of the affine matrix are solver variables; the real code forks on '
         'matrix != 0, so every zero pattern is covered; world attributes for every view of a family (incl. negative scalars, '
         'integer arrays), the automatically created pixel->world links, AffineCoordinates.pixel_to_world_values and an attribute '
         'derived from a world attribute are proved equal to the affine map of the pixel grid, so the broadcasting shortcuts for '
         'independent axes cannot change a value. Inverse direction: listed 1-3-d matrices and identity coordinates with symbolic '
         'positions in three broadcast layouts: world_to_pixel undoes pixel_to_world within tolerance, the single-axis helpers and '
         'both link functions agree with the coordinate object.', ref='5/C15',
    note=NOTE_SYM + '; S-inv: np.linalg.inv of a symbolic matrix computed by cofactor expansion (invertibility assumed: det != 0 '
         'up to 2-d, strict diagonal dominance in 3-d); astropy WCS outside the claim; asymmetric correlation patterns are a '
         'recorded finding')

CHECKS['C05'] = dict(cat='other', engine='symnp',
    technique='two-state symbolic execution (values before/after as distinct solver variables) of the real mutation API + SMT equivalence with a never-evaluated copy',
    text='Every selection kind, as the top-level state of a subset and stand-alone, is evaluated (filling all memo caches), then '
         'the values are replaced by fresh symbolic values through update_components (by id and by Component) or '
         'update_values_from_data, or region parameters are edited (lo/hi/att setters, move_to, ROI replaced or edited in place, '
         'mask / pairs setters), or links are added, removed or replaced (set_links, inside and outside delay_link_manager_update); '
         'z3 proves the next mask, derived value, statistic and histogram equal to that of a never-evaluated copy over the new '
         'values - any result still depending on the old variables is a counterexample. A variant first performs 260 distinct '
         'memoised evaluations so that bounded-cache defects surface.', ref='5/C05',
    note=NOTE_SYM + '; the recorded finding C05/memo-not-invalidated (memoised states other than the top-level state class of a '
         'subset are never invalidated) is excluded by its witness-class predicate while its demonstration still fails; '
         'FloodFillSubsetState and viewer-layer caches outside the claim')

CHECKS['C16'] = dict(cat='other', engine='symnp',
    technique='symbolic execution of the real buffer code (symbolic bounds, data, link offsets; gather as ite chains; cache hits as solver-decided forks) + SMT equivalence',
    text='(1) one uncached request per path (values of two attributes, two selections; source = the reference itself, an '
         'axis-permuted, an offset/scaled/flipped and a lower-dimensional linked dataset; scalar or ranged first bound): every '
         'element equals the value of the nearest source pixel at the linked position (numpy round-half-even), NaN / not selected '
         'outside the source. (2) sequences of three (thorough: four) requests under one cache id with independently symbolic '
         'bounds drawn from option pools, changing attribute / selection between requests: each answer equals the uncached one - '
         'whether a cache entry matches is decided by the solver on the symbolic bounds, AnyScalar and bounds_for_cache run for '
         'real. (3) slice_to_bound (AST-extracted): bounds describe exactly range(size)[slice].', ref='5/C16',
    note=NOTE_SYM + '; dask branch and selections on pixel attributes outside the claim; links are affine functions given as closures')

CHECKS['C11'] = dict(cat='other', engine='symnp',
    technique='symbolic execution of the key-join fallback on symbolic key columns and selections + SMT equivalence with membership-by-value',
    text='Single-key shapes 1-1, 1-n, n-1: key columns are symbolic extended reals (NaN included), the selection on the other '
         'dataset is an arbitrary symbolic mask; both directions, several views; z3 proves a row is selected iff its key equals by '
         'value the key of a selected row. Tuple-of-keys shape: the real byte-level concatenate_arrays runs on solver-enumerated '
         'key columns (int64, float64, strings; 16 rows on the other side in one harness) with a solver-forked selection; single-key '
         'shapes additionally on concrete columns of mixed storage types with integers beyond 2**53. Chains of 2-3 (thorough 4) datasets: the selection '
         'is propagated join by join; cycles and unanswerable selections terminate with IncompatibleAttribute, the recursion '
         'guard is released, and a failed request does not disturb the next one.', ref='5/C11',
    note=NOTE_SYM + '; tuple-shape key columns have the same dtype on both sides (mixed dtypes: recorded finding '
         'C11/tuple-keys-bytewise); in cyclic join graphs only termination is claimed (two routes exist)')

CHECKS['C09'] = dict(cat='other', engine='symnp',
    technique='symbolic execution of roi_to_subset_state and the returned selection classes (symbolic region parameters and numeric values, solver-enumerated category orders) + SMT',
    text='For the four axis-kind combinations, every listed ordering of three categories, ranges / RangeROI / rectangles with '
         'symbolic bounds and polygon-like regions (triangle, concave L, box; circle, rotated ellipse, rotated rectangle; annulus with '
         'enumerated centre/radii) with a symbolic translation, '
         'and symbolic numeric values (NaN included), z3 proves that a row is selected iff its plotted position (category index '
         'for categorical axes) lies in the region, outside a boundary band. Code reached: roi_to_subset_state (all branches), '
         'CategoricalROI.from_range/contains, CategoricalROISubsetState, CategoricalROISubsetState2D, '
         'CategoricalMultiRangeSubsetState, polygon_line_intersections, points_inside_poly, RoiSubsetState.', ref='5/C09',
    note=NOTE_SYM + '; S-path stub for Path.contains_points; polygon shapes are listed (translation symbolic); circle/ellipse '
         'approximation polygon reduced from 100 to 8 vertices while exploring (band widened to the sagitta), mixed-axis '
         'circle/ellipse only in the thorough tier; int()/np.intp() of symbolic reals answered by solver enumeration')

CHECKS['C06'] = dict(cat='model_checking', struct=True, engine='symnp (explorer) on the real DataCollection',
    technique='bounded model checking: solver-enumerated operation sequences on the real collection, invariant + SMT mask equalities after every step',
    text='From three initial states, every sequence of 4 (thorough 5) operations over append / remove / re-append, new and removed '
         'subset groups, group state / label (colliding labels) / style changes, merge, clear, extend, AddData / RemoveData commands '
         'and undo / redo is executed on the real DataCollection, SubsetGroup and CommandStack; after every step each dataset in the '
         'collection has exactly one subset per live group and no other, groups list exactly those, members share state object, '
         'label and style, removed datasets and groups keep no membership, and every member mask is proved equal to the group '
         'selection over symbolic data.', ref='5/C06',
    note='bounded depth; 3 datasets, up to 3 groups; quick tier uses a reduced operation alphabet (evidence.bounds); save/restore of '
         'sessions is exercised under C02')
CHECKS['C13'] = dict(cat='model_checking', struct=True, engine='symnp (explorer) on the real CommandStack',
    technique='bounded model checking: solver-enumerated do/undo/redo traces on a real Session, snapshots compared structurally and by SMT mask equivalence',
    text='Every trace of 4 (thorough 5) steps over AddData, RemoveData, ApplySubsetState (each edit mode, with and without '
         'override_mode), ApplyROI, undo and redo from three (thorough four) start states incl. a single dataset carrying a group, plus 6-step (thorough 7) undo/redo interleavings after two arbitrary commands: '
         'after each undo the snapshot (datasets, groups with label and style, membership, edit-subset choice, every subset mask as '
         'a term over symbolic data) equals the snapshot before the command, after each redo the one after it; a new command clears '
         'the redo history, can_undo_redo matches the history, and the undo history never exceeds MAX_UNDO (symbolic command count).',
    ref='5/C13',
    note='the position of a re-added dataset in the collection is not compared; the edit mode is chosen once per trace (it is '
         'session state, not a command argument); recorded findings C13/undo-of-group-creation and C13/apply-undo-empty-collection '
         'are excluded by their witness classes')

CHECKS['C17'] = dict(cat='model_checking', struct=True, engine='symnp (explorer) on the real Data',
    technique='bounded model checking: solver-enumerated operation sequences (valid and invalid arguments) on a real Data, invariant + message-log oracle + SMT value equalities',
    text='Every sequence of 3 (thorough 4) operations over add_component (valid / wrong shape / duplicate label), derived and '
         'derived-of-derived attributes, remove_component (any victim / foreign id), reorder (stored or derived attributes / invalid), update_id, '
         'update_components (valid / wrong shape), update_values_from_data (same / new shape), coords set / unset and label, on a '
         'dataset with no / identity / affine coordinates inside and outside a collection, plus two free steps after a three-level '
         'derived chain: after every step all components have the dataset shape, one pixel attribute per dimension, world '
         'attributes iff coordinates, identifiers unique and in stable order, lookup by name unique-or-None; the hub log announces '
         'every added / removed / reordered / replaced component, value and label change exactly (right sender and component) and '
         'nothing that did not happen; attribute values are proved equal to the expected symbolic values.', ref='5/C17',
    note='bounded depth; ExternallyDerivable/PixelAligned messages are not part of the oracle; recorded finding '
         'C17/update-id-dependants excluded by its witness class')

CHECKS['C03'] = dict(cat='other', engine='symnp',
    technique='symbolic execution of the link manager on solver-enumerated link graphs with symbolic values + SMT equivalence with an independent shortest-chain closure',
    text='All combinations of a one-way / two-way link a0->a1, a link a1->a2 (one-way, two-way, or starting from a derived '
         'attribute), a shortcut a0->a2, a two-input link (a0,b0)->a1 and an identity link a2<->a0 (cycle), registered one by one '
         'or in one delayed update, over three datasets with symbolic values: for every dataset and attribute, readable iff a '
         'chain exists (independent least-fixpoint closure), the value read equals the composition along a minimum-depth chain '
         '(disjunction over equally short chains), a selection on the attribute selects by those values and is incompatible '
         'elsewhere; the derived attribute inside the middle dataset is defined one-way or with an inverse (two-way). Then one mutation '
         '(thorough: every ordered pair of mutations; remove / add link, remove a component, a derived source attribute or the input of '
         'one, remove a dataset, '
         'remove and re-append, replace a link by set_links or inside delay_link_manager_update) and the same obligations plus: '
         'no registered link, externally derivable attribute or pixel-alignment entry refers to a removed object.', ref='5/C03',
    note=NOTE_SYM + '; link functions are fixed pairwise independent affine maps; 3 datasets (the property mentions ~5); key joins '
         'are C11, coordinate links C15')

CHECKS['C02'] = dict(cat='other', engine='symnp',
    technique='real serializer/unserializer run on sessions with symbolic payload (S-npy stub) + SMT equivalence of masks and values before/after',
    text='One session per selection recipe (every SubsetState and Roi class of glue.core found by introspection, ~35 recipes), per '
         'link kind (LinkSame, function links, two-input, LinkTwoWay, MultiLink, JoinLink, join_on_key, derived-source links) and '
         'per component / coordinate kind (units, categorical with custom order, datetime, derived chains, identity / affine 1-3-d '
         'coordinates, none) is written with the real GlueSerializer (real json) and read back; either saving fails loudly or every '
         'dataset has the same labels, component order, values (as terms over the symbolic payload), reachable linked attributes, '
         'key joins, subset masks on every dataset (or the same incompatibility), styles (alpha 0 included) and metadata; a second '
         'round trip gives the same again. Composite selections (each recipe combined by & | ^ ~ with partner recipes, partner alone in '
         'a second group): six recipes in the quick tier, all in the thorough tier.', ref='5/C02',
    note=NOTE_SYM + '; structure and selection parameters are concrete (sampled asymmetric values), the payload is symbolic; '
         'include_data=False, Mpl ROIs, viewers and FloodFillSubsetState are outside the claim; recorded finding '
         'C02/selection-without-saver excluded by its witness class')

NOT_YET = {}

NOT_APPLICABLE = {
    'C18': 'viewer/layer-artist/echo callback object graph with matplotlib rendering: no value domain to make symbolic and '
           'states cannot be constructed from a symbolic descriptor; only concrete enumeration would remain, which is '
           'not this technique (DESIGN section 6)',
    'C19': 'every value crosses astropy.io / h5py / pandas C encoders and the file system; a symbolic value is realised '
           'at the first write and stubbing the codecs removes what the property is about (DESIGN section 6)',
}


def main():
    props = [json.loads(l)['id'] for l in open(os.path.join(HERE, 'properties.jsonl'))]
    checks = []
    for pid in props:
        if pid not in CHECKS:
            continue
        c = CHECKS[pid]
        checks.append(dict(
            property_id=pid,
            quick_cmd='./check %s --tier quick' % pid,
            thorough_cmd='./check %s --tier thorough' % pid,
            evidence_file='/verif/evidence/%s.json' % pid,
            replay_cmd_template='./check %s --replay {path}' % pid,
            engine=c.get('engine', 'symnp'),
            level_claimed=dict(category=c['cat'], text=c['text'], design_ref='DESIGN.md section ' + c['ref']),
            level_note=c.get('note', NOTE_SYM),
            technique=c['technique'],
        ))
    na = []
    for pid in props:
        if pid in CHECKS:
            continue
        if pid in NOT_APPLICABLE:
            na.append(dict(property_id=pid, reason=NOT_APPLICABLE[pid]))
        else:
            na.append(dict(property_id=pid, reason=NOT_YET.get(pid, 'check not built yet in this round (planned: DESIGN.md section 5)')))
    m = dict(
        version=1,
        setup_cmd='./check setup',
        hooks=dict(guard='GLUE_VIZ_GLUE_VERIF', enable='no source hooks: checks import glue from /repo (GLUE_SRC) as is; '
                   'symbolic arrays enter through public constructors, compiled callees are stubbed by rebinding names '
                   'in the harness process',
                   baseline_off_cmd='cd /repo && /venv/bin/python -m pytest -ra -q -p no:cacheprovider --timeout=900 '
                                    '--continue-on-collection-errors',
                   source_commits=[], add_only=True),
        engines=[
            dict(name='symnp', path='vtools/symcore.py, vtools/symnp.py', serves_properties=sorted(CHECKS),
                 kind_free_text='re-execution symbolic executor for Python: z3-backed scalars, ndarray subclass with '
                                'symbolic elements, DFS path explorer forking at bool()/index() under solver control'),
            dict(name='crosshair', path='vtools/xhair.py', serves_properties=[p for p in sorted(CHECKS) if CHECKS[p].get('xhair')],
                 kind_free_text='CrossHair 0.0.110 on pure-Python integer kernels'),
            dict(name='structgen', path='vtools/structgen.py', serves_properties=[p for p in sorted(CHECKS) if CHECKS[p].get('struct')],
                 kind_free_text='z3 all-SAT enumeration of SMT-defined pre-states, one real step each'),
        ],
        checks=checks,
        not_applicable=na,
        notes='Exit codes: 0 pass, 1 replay-confirmed violation, 3 harness inconclusive (never reported as pass or '
              'violation). known_findings.jsonl lists recorded/fixed genuine defects.',
    )
    with open(os.path.join(HERE, 'MANIFEST.json'), 'w') as f:
        json.dump(m, f, indent=1)
    print('wrote MANIFEST.json with %d checks, %d not_applicable' % (len(checks), len(na)))


if __name__ == '__main__':
    main()
