#!/usr/bin/env python3
"""Regenerates MANIFEST.json from the table below (keeps it valid and current)."""
import json
import os

HERE = os.path.dirname(os.path.abspath(__file__))

SYM = ('bounded symbolic execution of the real glue code on numpy arrays whose elements are z3 terms '
       '(path forks decided by the solver), obligations discharged by z3 (unsat), counterexamples '
       'replayed on the real code')
NOTE_SYM = ('bounds in evidence (array shapes, tree depth, integer ranges); floats are extended reals '
            '(NaN/inf exact, rounding not modelled); trusted: z3, CPython, real numpy for structural ops, '
            'the vtools.symnp shim (differentially validated at setup), listed stubs for compiled callees')

CHECKS = {
    'C01': dict(cat='other', technique='symbolic execution of real code (numpy shim over z3 terms) + SMT equivalence',
                text='Every expression tree (and/or/xor/not/multi-or, edit modes) up to the stated depth over all '
                     'elementary selection kinds is executed symbolically through the real SubsetState classes on '
                     'arrays whose elements, thresholds and masks are solver variables; z3 proves the mask equal to the '
                     'Boolean tree of the leaf definitions for every value (incl. NaN/inf), operands unaltered, '
                     'evaluation order irrelevant. Bounded: shapes and depth as in evidence.', ref='5/C01'),
}

NOT_YET = {}

NOT_APPLICABLE = {
    'C18': 'viewer/layer-artist/echo callback object graph with matplotlib rendering: no value domain to make symbolic and '
           'states cannot be constructed from a symbolic descriptor; only concrete enumeration would remain, which is '
           'not this technique (DESIGN section 6)',
    'C19': 'every value crosses astropy.io / h5py / pandas C encoders and the file system; a symbolic value is realised '
           'at the first write and stubbing the codecs removes what the property is about (DESIGN section 6)',
}


def main():
    props = [json.loads(l)['id'] for l in open(os.path.join(HERE, 'properties.jsonl'))]
    checks = []
    for pid in props:
        if pid not in CHECKS:
            continue
        c = CHECKS[pid]
        checks.append(dict(
            property_id=pid,
            quick_cmd='./check %s --tier quick' % pid,
            thorough_cmd='./check %s --tier thorough' % pid,
            evidence_file='/verif/evidence/%s.json' % pid,
            replay_cmd_template='./check %s --replay {path}' % pid,
            engine=c.get('engine', 'symnp'),
            level_claimed=dict(category=c['cat'], text=c['text'], design_ref='DESIGN.md section ' + c['ref']),
            level_note=c.get('note', NOTE_SYM),
            technique=c['technique'],
        ))
    na = []
    for pid in props:
        if pid in CHECKS:
            continue
        if pid in NOT_APPLICABLE:
            na.append(dict(property_id=pid, reason=NOT_APPLICABLE[pid]))
        else:
            na.append(dict(property_id=pid, reason=NOT_YET.get(pid, 'check not built yet in this round (planned: DESIGN.md section 5)')))
    m = dict(
        version=1,
        setup_cmd='./check setup',
        hooks=dict(guard='GLUE_VIZ_GLUE_VERIF', enable='no source hooks: checks import glue from /repo (GLUE_SRC) as is; '
                   'symbolic arrays enter through public constructors, compiled callees are stubbed by rebinding names '
                   'in the harness process',
                   baseline_off_cmd='cd /repo && /venv/bin/python -m pytest -ra -q -p no:cacheprovider --timeout=900 '
                                    '--continue-on-collection-errors',
                   source_commits=[], add_only=True),
        engines=[
            dict(name='symnp', path='vtools/symcore.py, vtools/symnp.py', serves_properties=sorted(CHECKS),
                 kind_free_text='re-execution symbolic executor for Python: z3-backed scalars, ndarray subclass with '
                                'symbolic elements, DFS path explorer forking at bool()/index() under solver control'),
            dict(name='crosshair', path='vtools/xhair.py', serves_properties=[p for p in sorted(CHECKS) if CHECKS[p].get('xhair')],
                 kind_free_text='CrossHair 0.0.110 on pure-Python integer kernels'),
            dict(name='structgen', path='vtools/structgen.py', serves_properties=[p for p in sorted(CHECKS) if CHECKS[p].get('struct')],
                 kind_free_text='z3 all-SAT enumeration of SMT-defined pre-states, one real step each'),
        ],
        checks=checks,
        not_applicable=na,
        notes='Exit codes: 0 pass, 1 replay-confirmed violation, 3 harness inconclusive (never reported as pass or '
              'violation). known_findings.jsonl lists recorded/fixed genuine defects.',
    )
    with open(os.path.join(HERE, 'MANIFEST.json'), 'w') as f:
        json.dump(m, f, indent=1)
    print('wrote MANIFEST.json with %d checks, %d not_applicable' % (len(checks), len(na)))


if __name__ == '__main__':
    main()
