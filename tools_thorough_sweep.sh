#!/bin/bash
# runs the thorough tier of the given (default: all claimed) checks one after the other against /repo; log per property under .gen/thorough-logs
cd "$(dirname "$0")"
mkdir -p .gen/thorough-logs
IDS="$@"
[ -z "$IDS" ] && IDS=$(python3 -c "import json; print(' '.join(c['property_id'] for c in json.load(open('MANIFEST.json'))['checks']))")
for id in $IDS; do
  s=$(date +%s)
  ./check $id --tier thorough > .gen/thorough-logs/$id.log 2>&1; rc=$?
  e=$(date +%s)
  echo "$id rc=$rc $((e-s))s $(grep -E '^(PASS|VIOLATION|INCONCLUSIVE|HARNESS-ERROR)' .gen/thorough-logs/$id.log | head -3 | cut -c1-200 | tr '\n' '|')"
done
